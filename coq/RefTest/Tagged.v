(* Model of tag-based test selection (TaggedTestLoader + unittest loading),
   composed with the argv scanner.  Classes arrive in definition order; single
   inheritance among user classes. *)
From Coq Require Import ZArith List Bool.
From Tdda Require Import Base.Sexp Base.Str Base.Sort RefTest.Argv.
Import ListNotations.
Open Scope Z_scope.

Record rawclass := {
  rc_name : str;
  rc_base : option str;             (* a user class defined earlier, or None *)
  rc_tagged : bool;                 (* @tag on the class itself *)
  rc_methods : list (str * bool)    (* own test methods: name, @tag *)
}.

Record tclass := {
  tc_name : str;
  tc_tagged : bool;                 (* hasattr(cls, '_tagged'), inherited included *)
  tc_methods : list (str * bool)    (* dir()-visible test methods, sorted by name *)
}.

Fixpoint find_class (n : str) (l : list tclass) : option tclass :=
  match l with
  | [] => None
  | c :: l' => if str_eqb n (tc_name c) then Some c else find_class n l'
  end.

Definition pair_leb (a b : str * bool) : bool := str_leb (fst a) (fst b).

(* own definitions override inherited ones *)
Definition merge_methods (own base : list (str * bool)) : list (str * bool) :=
  isort pair_leb
    (own ++ filter (fun m => negb (mem_str (fst m) (map fst own))) base).

Definition resolve1 (env : list tclass) (r : rawclass) : tclass :=
  match match rc_base r with Some b => find_class b env | None => None end with
  | Some b => {| tc_name := rc_name r; tc_tagged := rc_tagged r || tc_tagged b;
                 tc_methods := merge_methods (rc_methods r) (tc_methods b) |}
  | None => {| tc_name := rc_name r; tc_tagged := rc_tagged r;
               tc_methods := merge_methods (rc_methods r) [] |}
  end.

Definition resolve (rs : list rawclass) : list tclass :=
  fold_left (fun env r => env ++ [resolve1 env r]) rs [].

(* TaggedTestLoader.getTestCaseNames *)
Definition tagged_names (c : tclass) : list str :=
  if tc_tagged c then map fst (tc_methods c)
  else map fst (filter snd (tc_methods c)).

Definition all_names (c : tclass) : list str := map fst (tc_methods c).

Definition class_leb (a b : tclass) : bool := str_leb (tc_name a) (tc_name b).

(* unittest flags the harness uses; they do not affect which tests run *)
Definition unittest_flags : list str :=
  [ [45;118]; [45;113]; [45;102]; [45;98];                               (* -v -q -f -b *)
    [45;45;118;101;114;98;111;115;101]; [45;45;113;117;105;101;116];      (* --verbose --quiet *)
    [45;45;102;97;105;108;102;97;115;116]; [45;45;98;117;102;102;101;114];(* --failfast --buffer *)
    [45;118;113]; [45;118;102]; [45;113;102]; [45;102;118]; [45;98;118]; [45;118;98] ].

Inductive outcome :=
| Ran (executed : list (str * str)) (listed : list str)
| UsageError                       (* unittest rejects the command line / unknown name *)
| Raised.                          (* _set_flags_from_argv raises *)

(* a name that is not a class of the module loads as a failing pseudo-test:
   it executes nothing of the module and lists nothing *)
Fixpoint lookup_names (names : list str) (env : list tclass) : list tclass :=
  match names with
  | [] => []
  | n :: ns => match find_class n env with
               | Some c => c :: lookup_names ns env
               | None => lookup_names ns env
               end
  end.

Definition is_dash_arg (a : str) : bool := startswith [45] a.

Fixpoint dropwhile {T} (f : T -> bool) (l : list T) : list T :=
  match l with
  | [] => []
  | x :: l' => if f x then dropwhile f l' else l
  end.

(* argparse takes the test names as one contiguous block *)
Definition names_contiguous (rest : list str) : bool :=
  forallb is_dash_arg
    (dropwhile (fun a => negb (is_dash_arg a)) (dropwhile is_dash_arg rest)).

Definition is_nonempty_list {T} (l : list T) : bool := match l with [] => false | _ => true end.

Definition select (tagged check : bool) (cs : list tclass) : outcome :=
  if check then
    Ran [] (map tc_name (filter (fun c => is_nonempty_list (tagged_names c)) cs))
  else if tagged then
    Ran (flat_map (fun c => map (fun m => (tc_name c, m)) (tagged_names c)) cs) []
  else
    Ran (flat_map (fun c => map (fun m => (tc_name c, m)) (all_names c)) cs) [].

Definition run_module (rs : list rawclass) (argv : list str) : outcome :=
  match set_flags argv with
  | None => Raised
  | Some r =>
    let rest := tl (ar_argv r) in
    let flags := filter is_dash_arg rest in
    let names := filter (fun a => negb (is_dash_arg a)) rest in
    if negb (forallb (fun f => mem_str f unittest_flags) flags && names_contiguous rest)
    then UsageError
    else
      let env := resolve rs in
      match names with
      | [] => select (ar_tagged r) (ar_check r) (isort class_leb env)
      | _ => select (ar_tagged r) (ar_check r) (lookup_names names env)
      end
  end.

(* wire format *)
Definition sx_rawclass (s : sexp) : rawclass :=
  {| rc_name := sx_str (sx_nth 0 s);
     rc_base := sx_opt sx_str (sx_nth 1 s);
     rc_tagged := sx_bool (sx_nth 2 s);
     rc_methods := map (fun m => (sx_str (sx_nth 0 m), sx_bool (sx_nth 1 m))) (sx_list (sx_nth 3 s)) |}.

Definition tagged_entry (s : sexp) : sexp :=
  match run_module (map sx_rawclass (sx_list (sx_nth 0 s))) (sx_strs (sx_nth 1 s)) with
  | Ran ex li => L [A 0; L (map (fun p => L [of_str (fst p); of_str (snd p)]) ex); of_strs li]
  | UsageError => L [A 1]
  | Raised => L [A 2]
  end.
