From Coq Require Import ZArith List Bool Lia.
From Tdda Require Import Base.Sexp Base.Str Generated.Consts Serial.DateFmt.
Import ListNotations.
Open Scope Z_scope.

Definition chain_blocks (chain : list (str * str)) (c : Z) : bool :=
  forallb (fun p => negb (existsb (Z.eqb c) (fst p))) chain.

Lemma apply_chain_blocked chain c : chain_blocks chain c = true ->
  forall a b, apply_chain chain (a ++ c :: b) = apply_chain chain a ++ c :: apply_chain chain b.
Proof.
  unfold apply_chain, chain_blocks. induction chain as [|[o n] chain IH]; intros H a b; [reflexivity|].
  cbn [forallb fst] in H. apply andb_true_iff in H as [H1 H2]. apply negb_true_iff in H1.
  cbn [fold_left fst snd]. rewrite replace_blocked by exact H1. apply IH. exact H2.
Qed.

Lemma sep_blocks s : chain_blocks csvw_replace_chain (sep_char s) = true.
Proof. destruct s; vm_compute; reflexivity. Qed.

Lemma token_translates t : apply_chain csvw_replace_chain (csvw_of t) = strf_of t.
Proof. destruct t; vm_compute; reflexivity. Qed.

Lemma chain_render t rest :
  apply_chain csvw_replace_chain (render csvw_of t rest) = render strf_of t rest.
Proof.
  revert t. induction rest as [|[s t'] r IH]; intro t; cbn [render].
  - apply token_translates.
  - rewrite apply_chain_blocked by apply sep_blocks. rewrite token_translates, IH. reflexivity.
Qed.

Lemma no_pct_render t rest : existsb (Z.eqb pct) (render csvw_of t rest) = false.
Proof.
  revert t. induction rest as [|[s t'] r IH]; intro t; cbn [render].
  - destruct t; reflexivity.
  - rewrite existsb_app. cbn [existsb]. rewrite IH.
    destruct t, s; reflexivity.
Qed.

Lemma render_nonempty t rest : render csvw_of t rest <> [].
Proof. destruct rest as [|[s t'] r]; destruct t; discriminate. Qed.

Theorem translate_correct_proof t rest :
  translate (render csvw_of t rest) =
  if mem_str (render strf_of t rest) iso_strings then s_ISO8601 else render strf_of t rest.
Proof.
  unfold translate. rewrite no_pct_render, chain_render.
  destruct (render csvw_of t rest) eqn:E; [exfalso; eapply render_nonempty; eassumption|].
  rewrite orb_false_r. reflexivity.
Qed.

(* a format that already contains % is passed through; the empty format means ISO *)
Lemma translate_passthrough fmt : existsb (Z.eqb pct) fmt = true -> translate fmt = fmt.
Proof. unfold translate. intros ->. reflexivity. Qed.

Lemma translate_empty : translate [] = s_ISO8601.
Proof. reflexivity. Qed.
