(* Model of tdda/serial/csvw.py:csvw_date_format_to_md_date_format (extensions=False).
   The replacement chain and the ISO regex source come from Generated/Consts.v. *)
From Coq Require Import ZArith List Bool.
From Tdda Require Import Base.Sexp Base.Str Generated.Consts.
Import ListNotations.
Open Scope Z_scope.

Definition pct : Z := 37.

Definition apply_chain (chain : list (str * str)) (s : str) : str :=
  fold_left (fun acc p => replace (fst p) (snd p) acc) chain s.

(* the language of RE_ISO8601 = ^%Y-%m-%d([T ]%H:%M:%S(\.%f)?)?$ under re.match
   ($ also matches before one final newline) *)
Definition iso_date : str := [37;89;45;37;109;45;37;100].                  (* %Y-%m-%d *)
Definition iso_time : str := [37;72;58;37;77;58;37;83].                    (* %H:%M:%S *)
Definition iso_frac : str := [46;37;102].                                  (* .%f *)
Definition iso_core : list str :=
  [ iso_date;
    iso_date ++ [84] ++ iso_time; iso_date ++ [32] ++ iso_time;
    iso_date ++ [84] ++ iso_time ++ iso_frac; iso_date ++ [32] ++ iso_time ++ iso_frac ].
Definition iso_strings : list str := iso_core ++ map (fun s => s ++ [10]) iso_core.

Definition s_ISO8601 : str := [73;83;79;56;54;48;49].

Definition translate (fmt : str) : str :=
  if existsb (Z.eqb pct) fmt then fmt else
  let out := apply_chain csvw_replace_chain fmt in
  if mem_str out iso_strings || match fmt with [] => true | _ => false end
  then s_ISO8601 else out.

(* the documented CSVW fields *)
Inductive token := Td | Tdd | TM | TMM | Tyy | Tyyyy | THH | Tmm | Tss | TS | TSS | TSSS.
Inductive sep := SDash | SSlash | SDot | SColon | SSpace | ST.

Definition csvw_of (t : token) : str :=
  match t with
  | Td => [100] | Tdd => [100;100] | TM => [77] | TMM => [77;77]
  | Tyy => [121;121] | Tyyyy => [121;121;121;121] | THH => [72;72] | Tmm => [109;109]
  | Tss => [115;115] | TS => [83] | TSS => [83;83] | TSSS => [83;83;83]
  end.

Definition strf_of (t : token) : str :=
  match t with
  | Td | Tdd => [37;100] | TM | TMM => [37;109]
  | Tyy => [37;121] | Tyyyy => [37;89] | THH => [37;72] | Tmm => [37;77]
  | Tss => [37;83] | TS | TSS | TSSS => [37;102]
  end.

Definition sep_char (s : sep) : Z :=
  match s with SDash => 45 | SSlash => 47 | SDot => 46 | SColon => 58 | SSpace => 32 | ST => 84 end.

Fixpoint render (f : token -> str) (t : token) (rest : list (sep * token)) : str :=
  match rest with
  | [] => f t
  | (s, t') :: r => f t ++ sep_char s :: render f t' r
  end.

(* wire *)
Definition translate_entry (s : sexp) : sexp := of_str (translate (sx_str s)).
