(* Code-point order on strings (= Python's str ordering) and insertion sort. *)
From Coq Require Import ZArith List Bool Lia.
From Tdda Require Import Base.Sexp Base.Str.
Import ListNotations.
Open Scope Z_scope.

Fixpoint str_leb (a b : str) : bool :=
  match a, b with
  | [], _ => true
  | _ :: _, [] => false
  | x :: a', y :: b' => if Z.ltb x y then true else if Z.ltb y x then false else str_leb a' b'
  end.

Definition str_ltb (a b : str) : bool := str_leb a b && negb (str_eqb a b).

Section Sort.
  Context {T : Type} (leb : T -> T -> bool).
  Fixpoint insert (x : T) (l : list T) : list T :=
    match l with
    | [] => [x]
    | y :: l' => if leb x y then x :: l else y :: insert x l'
    end.
  Fixpoint isort (l : list T) : list T :=
    match l with
    | [] => []
    | x :: l' => insert x (isort l')
    end.
End Sort.

Definition sort_strs (l : list str) : list str := isort str_leb l.

(* remove duplicates keeping first occurrence *)
Fixpoint dedup (l : list str) : list str :=
  match l with
  | [] => []
  | x :: l' => x :: filter (fun y => negb (str_eqb x y)) (dedup l')
  end.

Lemma str_leb_refl a : str_leb a a = true.
Proof. induction a as [|x a IH]; simpl; [reflexivity|]. rewrite Z.ltb_irrefl. exact IH. Qed.

Lemma str_leb_total a b : str_leb a b = true \/ str_leb b a = true.
Proof.
  revert b; induction a as [|x a IH]; intros [|y b]; simpl; auto.
  destruct (Z.ltb_spec x y), (Z.ltb_spec y x); auto; try lia.
Qed.

Lemma str_leb_antisym a b : str_leb a b = true -> str_leb b a = true -> a = b.
Proof.
  revert b; induction a as [|x a IH]; intros [|y b]; simpl; try discriminate; auto.
  destruct (Z.ltb_spec x y), (Z.ltb_spec y x); try discriminate; try lia.
  intros H1 H2. assert (x = y) by lia. subst. f_equal. auto.
Qed.

Lemma str_leb_trans a b c : str_leb a b = true -> str_leb b c = true -> str_leb a c = true.
Proof.
  revert b c; induction a as [|x a IH]; intros [|y b] [|z c]; simpl; try discriminate; auto.
  destruct (Z.ltb_spec x y), (Z.ltb_spec y x), (Z.ltb_spec y z), (Z.ltb_spec z y),
    (Z.ltb_spec x z), (Z.ltb_spec z x); try discriminate; try lia; auto.
  apply IH.
Qed.

Lemma insert_perm {T} (leb : T -> T -> bool) x l : forall y, In y (insert leb x l) <-> y = x \/ In y l.
Proof.
  induction l as [|z l IH]; intros y; simpl; [intuition|].
  destruct (leb x z); simpl; [intuition|]. rewrite IH. intuition.
Qed.

Lemma isort_In {T} (leb : T -> T -> bool) l : forall y, In y (isort leb l) <-> In y l.
Proof.
  induction l as [|x l IH]; intros y; simpl; [tauto|].
  rewrite insert_perm, IH. intuition.
Qed.
