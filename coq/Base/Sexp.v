(* S-expressions of integers: the only wire format between the extracted
   model and the Python harness.  Strings travel as lists of code points. *)
From Coq Require Import ZArith List Bool.
Import ListNotations.

Inductive sexp := A (z : Z) | L (l : list sexp).

Definition str := list Z.

Definition sx_Z (s : sexp) : Z := match s with A z => z | L _ => 0%Z end.
Definition sx_list (s : sexp) : list sexp := match s with L l => l | A _ => [] end.
Definition sx_str (s : sexp) : str := map sx_Z (sx_list s).
Definition sx_bool (s : sexp) : bool := negb (Z.eqb (sx_Z s) 0).
Definition sx_nat (s : sexp) : nat := Z.to_nat (sx_Z s).
Definition sx_nth (n : nat) (s : sexp) : sexp := nth n (sx_list s) (L []).
Definition sx_strs (s : sexp) : list str := map sx_str (sx_list s).
Definition sx_opt {T} (f : sexp -> T) (s : sexp) : option T :=
  match s with
  | L (x :: _) => Some (f x)
  | _ => None
  end.

Definition of_str (s : str) : sexp := L (map A s).
Definition of_strs (l : list str) : sexp := L (map of_str l).
Definition of_bool (b : bool) : sexp := A (if b then 1 else 0)%Z.
Definition of_nat (n : nat) : sexp := A (Z.of_nat n).
Definition of_opt {T} (f : T -> sexp) (o : option T) : sexp :=
  match o with None => L [] | Some x => L [f x] end.
