(* Python-string operations over lists of code points. *)
From Coq Require Import ZArith List Bool Lia.
From Tdda Require Import Base.Sexp.
Import ListNotations.
Open Scope Z_scope.

Fixpoint str_eqb (a b : str) : bool :=
  match a, b with
  | [], [] => true
  | x :: a', y :: b' => Z.eqb x y && str_eqb a' b'
  | _, _ => false
  end.

Lemma str_eqb_eq a b : str_eqb a b = true <-> a = b.
Proof.
  revert b; induction a as [|x a IH]; intros [|y b]; simpl; split; intro H;
    try reflexivity; try discriminate.
  - apply andb_true_iff in H as [H1 H2]. apply Z.eqb_eq in H1.
    apply IH in H2. congruence.
  - inversion H; subst. rewrite Z.eqb_refl. simpl. apply IH. reflexivity.
Qed.

Lemma str_eqb_refl a : str_eqb a a = true.
Proof. apply str_eqb_eq; reflexivity. Qed.

Lemma str_eqb_neq a b : str_eqb a b = false <-> a <> b.
Proof.
  split; intro H.
  - intro E. apply str_eqb_eq in E. congruence.
  - destruct (str_eqb a b) eqn:E; [|reflexivity]. apply str_eqb_eq in E. contradiction.
Qed.

(* s.startswith(p) *)
Fixpoint startswith (p s : str) : bool :=
  match p, s with
  | [], _ => true
  | x :: p', y :: s' => Z.eqb x y && startswith p' s'
  | _ :: _, [] => false
  end.

Definition endswith (p s : str) : bool := startswith (rev p) (rev s).

(* x in list (strings) *)
Fixpoint mem_str (x : str) (l : list str) : bool :=
  match l with
  | [] => false
  | y :: l' => str_eqb x y || mem_str x l'
  end.

Lemma mem_str_In x l : mem_str x l = true <-> In x l.
Proof.
  induction l as [|y l IH]; simpl; [split; [discriminate|tauto]|].
  rewrite orb_true_iff, IH, str_eqb_eq. split; intros [H|H]; auto.
Qed.

(* l.index(x), as an option *)
Fixpoint index_str (x : str) (l : list str) : option nat :=
  match l with
  | [] => None
  | y :: l' => if str_eqb x y then Some O
               else match index_str x l' with
                    | Some n => Some (S n)
                    | None => None
                    end
  end.

(* s.replace(c, '') for a single character c *)
Definition remove_char (c : Z) (s : str) : str :=
  filter (fun x => negb (Z.eqb x c)) s.

(* s.split(c) for a single-character separator: never returns [] *)
Fixpoint split_char_aux (c : Z) (s : str) (cur : str) : list str :=
  match s with
  | [] => [rev cur]
  | x :: s' => if Z.eqb x c then rev cur :: split_char_aux c s' []
               else split_char_aux c s' (x :: cur)
  end.
Definition split_char (c : Z) (s : str) : list str := split_char_aux c s [].

(* sep.join(parts) *)
Fixpoint join (sep : str) (parts : list str) : str :=
  match parts with
  | [] => []
  | [p] => p
  | p :: rest => p ++ sep ++ join sep rest
  end.

(* substring test: needle in hay *)
Fixpoint contains (needle hay : str) : bool :=
  startswith needle hay ||
  match hay with
  | [] => false
  | _ :: hay' => contains needle hay'
  end.

(* first index of needle in hay *)
Fixpoint find (needle hay : str) : option nat :=
  if startswith needle hay then Some O else
  match hay with
  | [] => None
  | _ :: hay' => match find needle hay' with Some n => Some (S n) | None => None end
  end.

(* Python's s.replace(old, new) for non-empty old: left to right, non-overlapping.
   skip = number of characters of the current occurrence still to be dropped. *)
Fixpoint replace_aux (old new : str) (skip : nat) (s : str) : str :=
  match s with
  | [] => []
  | x :: s' =>
    match skip with
    | S k => replace_aux old new k s'
    | O => if startswith old s then new ++ replace_aux old new (length old - 1) s'
           else x :: replace_aux old new O s'
    end
  end.
Definition replace (old new s : str) : str :=
  match old with
  | [] => s   (* callers never pass an empty pattern; Python would interleave *)
  | _ => replace_aux old new O s
  end.

Lemma startswith_app p s : startswith p (p ++ s) = true.
Proof. induction p as [|x p IH]; simpl; [reflexivity|]. rewrite Z.eqb_refl; exact IH. Qed.

Lemma startswith_spec p s : startswith p s = true <-> exists t, s = p ++ t.
Proof.
  revert s; induction p as [|x p IH]; intros s; simpl.
  - split; [intros _; exists s; reflexivity | reflexivity].
  - destruct s as [|y s]; [split; [discriminate|intros [t Ht]; discriminate]|].
    rewrite andb_true_iff, Z.eqb_eq, IH. split.
    + intros [-> [t ->]]. exists t. reflexivity.
    + intros [t Ht]. inversion Ht; subst. split; [reflexivity|]. exists t; reflexivity.
Qed.

Lemma startswith_length p s : startswith p s = true -> (length p <= length s)%nat.
Proof.
  revert s; induction p as [|x p IH]; intros [|y s]; simpl; intro H; try lia; try discriminate.
  apply andb_true_iff in H as [_ H]. apply IH in H. lia.
Qed.

(* a character that does not occur in the pattern blocks every match across it *)
Lemma startswith_blocked old a c b :
  existsb (Z.eqb c) old = false -> old <> [] ->
  startswith old (a ++ c :: b) = startswith old a.
Proof.
  revert a; induction old as [|o old IH]; intros a Hc Hne; [congruence|].
  simpl in Hc. apply orb_false_iff in Hc as [Hco Hc].
  destruct a as [|x a]; simpl.
  - rewrite Z.eqb_sym, Hco. reflexivity.
  - destruct old as [|o' old'].
    + simpl. reflexivity.
    + rewrite IH; [reflexivity|exact Hc|discriminate].
Qed.

Lemma replace_aux_blocked old new c b : existsb (Z.eqb c) old = false -> old <> [] ->
  forall a k, (k <= length a)%nat ->
  replace_aux old new k (a ++ c :: b) = replace_aux old new k a ++ c :: replace_aux old new O b.
Proof.
  intros Hc Hne. induction a as [|x a IH]; intros k Hk.
  - assert (k = O) by (simpl in Hk; lia). subst k. cbn [app replace_aux].
    replace (startswith old (c :: b)) with (startswith old ([] ++ c :: b)) by reflexivity.
    rewrite startswith_blocked by assumption.
    destruct old as [|o old]; [congruence|]. reflexivity.
  - destruct k as [|k].
    + cbn [app replace_aux].
      replace (x :: a ++ c :: b) with ((x :: a) ++ c :: b) by reflexivity.
      rewrite startswith_blocked by assumption.
      destruct (startswith old (x :: a)) eqn:E.
      * apply startswith_length in E. simpl in E.
        rewrite IH by lia. rewrite app_assoc. reflexivity.
      * rewrite IH by lia. reflexivity.
    + cbn [app replace_aux]. apply IH. simpl in Hk. lia.
Qed.

Lemma replace_blocked old new c a b : existsb (Z.eqb c) old = false ->
  replace old new (a ++ c :: b) = replace old new a ++ c :: replace old new b.
Proof.
  intro Hc. destruct old as [|o old]; [reflexivity|].
  unfold replace. apply replace_aux_blocked; [exact Hc|discriminate|lia].
Qed.
