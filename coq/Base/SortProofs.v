(* Insertion sort on strings: permutation, and equality of sorted lists <-> same multiset. *)
From Coq Require Import ZArith List Bool Lia Permutation.
From Tdda Require Import Base.Sexp Base.Str Base.Sort.
Import ListNotations.

Lemma insert_Permutation x l : Permutation (x :: l) (insert str_leb x l).
Proof.
  induction l as [|y l IH]; simpl; [reflexivity|].
  destruct (str_leb x y); [reflexivity|].
  eapply perm_trans; [apply perm_swap|]. apply perm_skip. exact IH.
Qed.

Lemma isort_Permutation l : Permutation l (sort_strs l).
Proof.
  unfold sort_strs. induction l as [|x l IH]; simpl; [reflexivity|].
  eapply perm_trans; [apply perm_skip; exact IH|]. apply insert_Permutation.
Qed.

Lemma leb_false_rev a b : str_leb a b = false -> str_leb b a = true.
Proof. intro H. destruct (str_leb_total a b) as [H'|H']; congruence. Qed.

Lemma insert_comm x y l :
  insert str_leb x (insert str_leb y l) = insert str_leb y (insert str_leb x l).
Proof.
  induction l as [|z l IH]; simpl.
  - destruct (str_leb x y) eqn:Exy, (str_leb y x) eqn:Eyx; try reflexivity.
    + assert (x = y) by (apply str_leb_antisym; assumption). subst. reflexivity.
    + destruct (str_leb_total x y); congruence.
  - destruct (str_leb y z) eqn:Eyz, (str_leb x z) eqn:Exz; simpl.
    + destruct (str_leb x y) eqn:Exy, (str_leb y x) eqn:Eyx; simpl; rewrite ?Eyz, ?Exz; try reflexivity.
      * assert (x = y) by (apply str_leb_antisym; assumption). subst. reflexivity.
      * destruct (str_leb_total x y); congruence.
    + (* y <= z, not x <= z : z < x so y <= x *)
      assert (Eyx : str_leb y x = true).
      { apply leb_false_rev in Exz. eapply str_leb_trans; eassumption. }
      destruct (str_leb x y) eqn:Exy.
      * assert (x = y) by (apply str_leb_antisym; assumption). subst. congruence.
      * rewrite Exz, Eyz. reflexivity.
    + assert (Exy : str_leb x y = true).
      { apply leb_false_rev in Eyz. eapply str_leb_trans; eassumption. }
      destruct (str_leb y x) eqn:Eyx.
      * assert (x = y) by (apply str_leb_antisym; assumption). subst. congruence.
      * rewrite Exz, Eyz. reflexivity.
    + rewrite Exz, Eyz. f_equal. exact IH.
Qed.

Lemma sort_strs_perm_eq a b : Permutation a b -> sort_strs a = sort_strs b.
Proof.
  unfold sort_strs. induction 1 as [| x a b _ IH | x y a | a b c _ IH1 _ IH2]; simpl.
  - reflexivity.
  - rewrite IH. reflexivity.
  - apply insert_comm.
  - congruence.
Qed.

Theorem sort_strs_eq_iff a b : sort_strs a = sort_strs b <-> Permutation a b.
Proof.
  split; [|apply sort_strs_perm_eq].
  intro H. eapply perm_trans; [apply isort_Permutation|]. rewrite H.
  apply Permutation_sym. apply isort_Permutation.
Qed.
