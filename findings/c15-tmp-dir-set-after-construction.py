"""
C15: nothing is ever written outside the configured temporary directory.

ReferenceTest.__init__ copies tmp_dir into its FilesComparison object once.
unittest creates every TestCase instance when the tests are *loaded*, i.e.
before setUpModule / setUpClass / setUp run.  So when the temporary directory
is configured in test setup code (which is where the documentation says
set_defaults() is to be used), self.tmp_dir reports the configured directory,
but the artefacts of a failing assertStringCorrect / assertTextFileCorrect
are written to the directory that was the default when the instance was made
(normally the system-wide /tmp).
"""
import io
import os
import shutil
import sys
import tempfile
import unittest

base = tempfile.mkdtemp(prefix='c15v3-')
default_dir = os.path.join(base, 'system-default-tmp')
configured = os.path.join(base, 'configured-tmp')
os.mkdir(default_dir)
os.mkdir(configured)
# stand-in for the system default, so that this demo only writes under base
os.environ['TDDA_FAIL_DIR'] = default_dir

from tdda.referencetest import ReferenceTestCase          # noqa: E402

_saved = (ReferenceTestCase.tmp_dir, ReferenceTestCase.verbose)
ReferenceTestCase.set_defaults(verbose=False)   # quiet; not the point here

ref_path = os.path.join(base, 'ref.txt')
act_path = os.path.join(base, 'out.txt')
with open(ref_path, 'w') as f:
    f.write('report 2023\ntotal 42\n')
with open(act_path, 'w') as f:
    f.write('report 2024\ntotal 41\n')

seen = {}


class MyTests(ReferenceTestCase):
    @classmethod
    def setUpClass(cls):
        cls.set_defaults(tmp_dir=configured, verbose=False)

    def test_string(self):
        seen['self.tmp_dir'] = self.tmp_dir
        self.assertStringCorrect('report 2024\ntotal 41\n', ref_path,
                                 ignore_patterns=[r'\d{4}'])

    def test_file(self):
        self.assertTextFileCorrect(act_path, ref_path,
                                   ignore_patterns=[r'\d{4}'])


def main():
    saved = _saved
    try:
        suite = unittest.defaultTestLoader.loadTestsFromTestCase(MyTests)
        result = unittest.TextTestRunner(stream=io.StringIO()).run(suite)
        in_configured = sorted(os.listdir(configured))
        elsewhere = sorted(os.listdir(default_dir))
        nfail = len(result.failures)
        messages = '\n'.join(tb for (_, tb) in result.failures)
    finally:
        ReferenceTestCase.tmp_dir, ReferenceTestCase.verbose = saved
        shutil.rmtree(base)
    if nfail != 2:
        print('unexpected: %d failing tests, %d errors'
              % (nfail, len(result.errors)))
        sys.exit(2)
    if elsewhere:
        print('C15 VIOLATED')
        print('  tmp_dir configured in setUpClass: %s' % configured)
        print('  self.tmp_dir seen by the test:    %s' % seen['self.tmp_dir'])
        print('  files in configured directory:    %s' % in_configured)
        print('  files written OUTSIDE it, in %s:' % default_dir)
        for f in elsewhere:
            print('      ' + f)
        named = default_dir in messages
        print('  failure messages name files in the other directory: %s'
              % named)
        sys.exit(1)
    print('C15 ok')
    sys.exit(0)


if __name__ == '__main__':
    main()
