"""
C17: contradictory options are only rejected for two of the pairs.
  tdda discover -r -R ...                      (--rex together with --norex)
  tdda verify -a -f ...                        (--all together with --fields)
  tdda detect ... --no-output-fields --output-fields
all end with exit status 0, and discover / detect leave an output file behind.
"""
import os
import shutil
import subprocess
import sys
import tempfile

from tdda.constraints.pd.constraints import discover_df, load_df

GOOD = 'n,f,b\n1,1.5,True\n2,2.5,False\n3,,True\n'
BAD = 'n,f,b\n1,1.5,True\n20,-2.5,False\n3,,True\n-4,9.0,True\n'


def cli(args, cwd):
    return subprocess.run([sys.executable, '-m', 'tdda.constraints.console']
                          + args, cwd=cwd, capture_output=True, text=True)


def main():
    tmp = tempfile.mkdtemp()
    try:
        good = os.path.join(tmp, 'good.csv')
        bad = os.path.join(tmp, 'bad.csv')
        tdda = os.path.join(tmp, 'good.tdda')
        with open(good, 'w') as f:
            f.write(GOOD)
        with open(bad, 'w') as f:
            f.write(BAD)
        with open(tdda, 'w') as f:
            f.write(discover_df(load_df(good)).to_json())

        problems = []

        # sanity: the pair that IS checked behaves as the property says
        out0 = os.path.join(tmp, 'out0.csv')
        r = cli(['detect', bad, tdda, out0, '--per-constraint',
                 '--no-per-constraint'], tmp)
        assert r.returncode != 0 and not os.path.exists(out0)

        out1 = os.path.join(tmp, 'new.tdda')
        r = cli(['discover', '-r', '-R', good, out1], tmp)
        if r.returncode == 0 or os.path.exists(out1):
            problems.append('discover -r -R good.csv new.tdda: status %d, '
                            'output file left behind: %s'
                            % (r.returncode, os.path.exists(out1)))

        r = cli(['verify', '-a', '-f', good, tdda], tmp)
        if r.returncode == 0:
            problems.append('verify -a -f good.csv good.tdda: status 0')

        out2 = os.path.join(tmp, 'out2.csv')
        r = cli(['detect', bad, tdda, out2, '--no-output-fields',
                 '--output-fields'], tmp)
        if r.returncode == 0 or os.path.exists(out2):
            problems.append('detect bad.csv good.tdda out2.csv '
                            '--no-output-fields --output-fields: status %d, '
                            'output file left behind: %s'
                            % (r.returncode, os.path.exists(out2)))

        if problems:
            print('C17 VIOLATED')
            for p in problems:
                print('  ' + p)
            return 1
        print('C17 ok')
        return 0
    finally:
        shutil.rmtree(tmp, ignore_errors=True)


if __name__ == '__main__':
    sys.exit(main())
