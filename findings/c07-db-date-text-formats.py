"""
C07: discovery on a SQLite table with a DATE column holding 'YYYY-MM-DD'
values (what SQLite's own date() function produces), or a DATETIME column
with fractional seconds, raises ValueError: nothing at all is discovered
for the table.
"""
import os
import shutil
import sqlite3
import sys
import tempfile
import warnings

warnings.simplefilter('ignore')
from tdda.constraints.db.drivers import database_connection
from tdda.constraints.db.constraints import discover_db_table

problems = []
tmp = tempfile.mkdtemp()
try:
    cases = [
        ('CREATE TABLE t (n integer, d date)',
         "INSERT INTO t VALUES (1, date('2020-01-31')), "
         "(2, date('2021-02-28'))",
         ('2020-01-31', '2021-02-28')),
        ('CREATE TABLE t (n integer, d datetime)',
         "INSERT INTO t VALUES (1, '2020-01-31 10:00:00.250'), "
         "(2, '2021-02-28 11:30:00.500')",
         ('2020-01-31 10:00:00.250', '2021-02-28 11:30:00.500')),
    ]
    for i, (ddl, ins, (lo, hi)) in enumerate(cases):
        path = os.path.join(tmp, 'x%d.db' % i)
        conn = sqlite3.connect(path)
        conn.execute(ddl)
        conn.execute(ins)
        conn.commit()
        conn.close()
        db = database_connection(dbtype='sqlite', db=path)
        try:
            cons = discover_db_table('sqlite', db, 't')
            f = dict(cons.to_dict()['fields'].get('d', {}))
            if not (str(f.get('min', '')).startswith(lo[:10])
                    and str(f.get('max', '')).startswith(hi[:10])):
                problems.append('%s: wrong min/max for d: %r' % (ddl, f))
        except Exception as e:
            problems.append('%s with values %r: discovery raised %s: %s'
                            % (ddl, (lo, hi), type(e).__name__, e))
        finally:
            db.connection.close()
finally:
    shutil.rmtree(tmp)

if problems:
    print('C07 VIOLATED')
    for p in problems:
        print('  ' + p)
    sys.exit(1)
print('C07 ok')
sys.exit(0)
