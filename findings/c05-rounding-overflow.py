"""
C05: changing one checked value by more than the precision always fails.
same_structure_ddiff rounds both frames with DataFrame.round(precision);
numpy computes round(x, p) as rint(x * 10**p) / 10**p, which overflows to
+/-inf for |x| >= ~1.8e308 / 10**p (and for float32 columns already at
~3.4e38 / 10**p).  Both frames are rounded to inf, DataFrame.equals says
they are equal and the comparison PASSES: a finite sentinel such as DBL_MAX
is "equal" to infinity, and 1e303 is "equal" to 5e303.
"""
import shutil
import sys
import tempfile
import warnings

warnings.simplefilter('ignore')

import numpy as np
import pandas as pd

from tdda.referencetest.checkpandas import PandasComparison

td = tempfile.mkdtemp()
problems = []
try:
    c = PandasComparison(verbose=False, tmp_dir=td)
    fmax = np.finfo(np.float64).max
    cases = [
        ('float64: inf vs DBL_MAX, default precision',
         np.array([1.0, np.inf]), np.array([1.0, fmax]), {}),
        ('float64: -inf vs -1e308, default precision',
         np.array([1.0, -np.inf]), np.array([1.0, -1e308]), {}),
        ('float64: 1e303 vs 5e303, default precision',
         np.array([1.0, 1e303]), np.array([1.0, 5e303]), {}),
        ('float64: 2e298 vs 9e305, precision=10',
         np.array([1.0, 2e298]), np.array([1.0, 9e305]),
         dict(precision=10)),
        ('float32: 1e33 vs 3e38, default precision',
         np.array([1.0, 1e33], dtype='float32'),
         np.array([1.0, 3e38], dtype='float32'), {}),
        ('float32: 1e29 vs 2.5e29, precision=10',
         np.array([1.0, 1e29], dtype='float32'),
         np.array([1.0, 2.5e29], dtype='float32'), dict(precision=10)),
        ('Float64 (nullable): 1e303 vs 5e303',
         pd.array([None, 1e303], dtype='Float64'),
         pd.array([None, 5e303], dtype='Float64'), {}),
    ]
    for label, a, b, opts in cases:
        act = pd.DataFrame({'k': [1, 2], 'x': a})
        ref = pd.DataFrame({'k': [1, 2], 'x': b})
        try:
            r = c.check_dataframe(act, ref, **opts)
            got = 'PASS' if r.failures == 0 else 'FAIL'
        except Exception as e:
            got = 'raised %s: %s' % (type(e).__name__, e)
        print('%-50s actual %r expected %r -> %s'
              % (label, act['x'].iloc[1], ref['x'].iloc[1], got))
        if got != 'FAIL':
            problems.append('%s: actual %r vs expected %r: expected FAIL, '
                            'got %s' % (label, act['x'].iloc[1],
                                        ref['x'].iloc[1], got))
    # control: without the overflow the same relative change is detected
    r = c.check_dataframe(pd.DataFrame({'x': [1e300]}),
                          pd.DataFrame({'x': [5e300]}))
    print('control 1e300 vs 5e300:', 'PASS' if r.failures == 0 else 'FAIL')
finally:
    shutil.rmtree(td, ignore_errors=True)

if problems:
    print('C05 VIOLATED')
    for p in problems:
        print('  ' + p)
    sys.exit(1)
print('C05 ok')
sys.exit(0)
