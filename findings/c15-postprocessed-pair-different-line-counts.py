"""
C15: when exclusions are in force, a failing text assertion must write a
post-processed pair of files that differ exactly on the lines with unexcused
differences.  When actual and reference have different numbers of lines,
FilesComparison.wrong_number() stops advancing its line cursors at the first
unexcused difference, so every later excusable difference is never recorded:
  - file entry point: no post-processed pair is written at all if the first
    difference is a real one;
  - otherwise the pair is written but also differs on lines whose only
    difference is matched by ignore_patterns.
"""
import os
import re
import shutil
import sys
import tempfile

from tdda.referencetest.referencetest import ReferenceTest

PATTERN = r'\d{4}-\d\d-\d\d'


class Failed(Exception):
    pass


def assert_fn(ok, msg):
    if not ok:
        raise Failed(msg)


def body(path):
    with open(path) as f:
        s = f.read()
    if s.startswith('***\n'):          # skip the header block
        s = s.split('***\n\n', 1)[1]
    return s.splitlines()


def run(base, label, entry, actual, reference):
    d = os.path.join(base, label)
    tmp = os.path.join(d, 'tmp')
    os.makedirs(tmp)
    ref_path = os.path.join(d, 'ref.txt')
    act_path = os.path.join(d, 'out.txt')
    with open(ref_path, 'w') as f:
        f.write(reference)
    with open(act_path, 'w') as f:
        f.write(actual)
    ReferenceTest.set_defaults(tmp_dir=tmp, verbose=False)
    ref = ReferenceTest(assert_fn)
    try:
        if entry == 'file':
            ref.assertTextFileCorrect(act_path, ref_path,
                                      ignore_patterns=[PATTERN])
        else:
            ref.assertStringCorrect(actual, ref_path,
                                    ignore_patterns=[PATTERN])
    except Failed as e:
        msg = str(e)
    else:
        return ['%s: assertion unexpectedly passed' % label]

    m = re.search(r'Compare post-processed with:\n    diff (\S+) (\S+)', msg)
    if not m:
        return ['%s (%s entry): ignore_patterns in force, assertion failed, '
                'but no post-processed pair was written; tmp dir holds %r'
                % (label, entry, sorted(os.listdir(tmp)))]
    pa, pe = body(m.group(1)), body(m.group(2))
    problems = []
    for i, (x, y) in enumerate(zip(pa, pe), 1):
        if x != y and re.sub(PATTERN, '#', x) == re.sub(PATTERN, '#', y):
            problems.append(
                '%s (%s entry): post-processed pair differs on line %d '
                '(%r vs %r) although that difference is excused by '
                'ignore_patterns' % (label, entry, i, x, y)
            )
    return problems


def main():
    base = tempfile.mkdtemp(prefix='c15v2-')
    saved = (ReferenceTest.tmp_dir, ReferenceTest.verbose)
    try:
        problems = []
        # actual has one real change (total) and one extra line at the end;
        # the date lines differ only in the ignored pattern.
        actual1 = ('report\ntotal 41\nrun at 2024-01-02\n'
                   'checked 2024-01-03\nwarning: slow\n')
        ref1 = ('report\ntotal 42\nrun at 2023-05-06\n'
                'checked 2023-05-07\n')
        problems += run(base, 'real-diff-first', 'file', actual1, ref1)
        problems += run(base, 'real-diff-first-s', 'string', actual1, ref1)
        # an excusable line precedes the real change: the pair is written,
        # but the excusable line after the real change is shown as different
        actual2 = ('started 2024-01-01\ntotal 41\nrun at 2024-01-02\n'
                   'warning: slow\n')
        ref2 = 'started 2023-05-05\ntotal 42\nrun at 2023-05-06\n'
        problems += run(base, 'excused-then-real', 'file', actual2, ref2)
    finally:
        ReferenceTest.tmp_dir, ReferenceTest.verbose = saved
        shutil.rmtree(base)
    if problems:
        print('C15 VIOLATED')
        for p in problems:
            print('  ' + p)
        sys.exit(1)
    print('C15 ok')
    sys.exit(0)


if __name__ == '__main__':
    main()
