"""
C07: for a SQLite TEXT column declared with a non-binary collation
(COLLATE NOCASE / COLLATE RTRIM) discovery takes the distinct strings with
SELECT DISTINCT, which merges strings the collation considers equal:
  * allowed_values omits strings that are present in the table;
  * max_length is smaller than the longest string in the table, so the
    table fails verification against the constraints discovered from it.
"""
import os
import shutil
import sqlite3
import sys
import tempfile
import warnings

warnings.simplefilter('ignore')
from tdda.constraints.db.drivers import database_connection
from tdda.constraints.db.constraints import (discover_db_table,
                                              verify_db_table)

problems = []
tmp = tempfile.mkdtemp()
try:
    # --- NOCASE: allowed_values is not the set of distinct strings
    path = os.path.join(tmp, 'a.db')
    values = ['yes', 'Yes', 'YES', 'no']
    conn = sqlite3.connect(path)
    conn.execute('CREATE TABLE t (answer TEXT COLLATE NOCASE)')
    conn.executemany('INSERT INTO t VALUES (?)', [(v,) for v in values])
    conn.commit()
    conn.close()
    db = database_connection(dbtype='sqlite', db=path)
    f = dict(discover_db_table('sqlite', db, 't').to_dict()['fields']['answer'])
    db.connection.close()
    if sorted(f.get('allowed_values', [])) != sorted(set(values)):
        problems.append('NOCASE column with values %r: allowed_values %r, '
                        'expected %r' % (values, f.get('allowed_values'),
                                         sorted(set(values))))

    # --- RTRIM: max_length is not the longest string length
    path = os.path.join(tmp, 'b.db')
    values = ['ab', 'ab    ', 'c']
    conn = sqlite3.connect(path)
    conn.execute('CREATE TABLE t (code TEXT COLLATE RTRIM)')
    conn.executemany('INSERT INTO t VALUES (?)', [(v,) for v in values])
    conn.commit()
    conn.close()
    db = database_connection(dbtype='sqlite', db=path)
    cons = discover_db_table('sqlite', db, 't')
    f = dict(cons.to_dict()['fields']['code'])
    true_max = max(len(v) for v in values)
    if f.get('max_length') != true_max:
        problems.append('RTRIM column with values %r: max_length %r, '
                        'longest string has %d characters'
                        % (values, f.get('max_length'), true_max))
    tdda = os.path.join(tmp, 'b.tdda')
    with open(tdda, 'w') as fh:
        fh.write(cons.to_json())
    v = verify_db_table('sqlite', db, 't', tdda)
    db.connection.close()
    if v.failures:
        problems.append('RTRIM table fails %d of the constraints discovered '
                        'from it' % v.failures)
finally:
    shutil.rmtree(tmp)

if problems:
    print('C07 VIOLATED')
    for p in problems:
        print('  ' + p)
    sys.exit(1)
print('C07 ok')
sys.exit(0)
