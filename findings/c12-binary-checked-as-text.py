"""
C12 violation 3: a BINARY output file is checked by the generated test as
if it were text (assertTextFileCorrect), so bytes that happen to decode to
line-break characters are interchangeable: a changed data value in the file
is not noticed.

  A: a raw little-endian int32 array (numpy .tofile) is classified as
     'utf-32-le' text by FileType (chardet); element 13 (U+000D) changed
     to 10 (U+000A), or to 12 (U+000C), is not detected.
  B: a PDF is always classified as text (iso-8859-1); byte 0x0D changed to
     0x0A inside a binary stream is not detected.
"""
import os
import shutil
import subprocess
import sys
import tempfile

PY = sys.executable


def gentest_then_change(prog_before, prog_after, top, n):
    """
    Generates a test (tdda gentest, all defaults, checking '.') for the
    command 'python cmd.py' while cmd.py is prog_before; runs the generated
    test (must pass); then changes the behaviour of the command to
    prog_after and runs the generated test again.

    Returns (generated_ok, passes_unchanged, passes_after_change, script_text)
    """
    case = os.path.join(top, 'case%d' % n)
    work = os.path.join(case, 'work')
    tmp = os.path.join(case, 'tmp')
    os.makedirs(work)
    os.makedirs(tmp)
    prog = os.path.join(case, 'cmd.py')
    with open(prog, 'w') as f:
        f.write(prog_before)
    env = dict(os.environ)
    env['TMPDIR'] = tmp          # gentest's own temporary area: inside top
    env['PYTHONHASHSEED'] = '0'
    command = '%s %s' % (PY, prog)
    subprocess.run([PY, '-m', 'tdda.referencetest.gentest', command,
                    'test_x.py', '.'], cwd=work, env=env,
                   capture_output=True, text=True)
    script = os.path.join(work, 'test_x.py')
    if not os.path.exists(script):
        return (False, None, None, '')
    with open(script) as f:
        text = f.read()
    before = subprocess.run([PY, script], cwd=work, env=env,
                            capture_output=True, text=True)
    with open(prog, 'w') as f:
        f.write(prog_after)
    after = subprocess.run([PY, script], cwd=work, env=env,
                           capture_output=True, text=True)
    return (True, before.returncode == 0, after.returncode == 0, text)


PROG_A = ("import numpy as np\n"
          "a = np.arange(100, dtype='<i4')\n"
          "a[13] = %d\n"
          "a.tofile('counts.bin')\n")

PROG_B = ("with open('report.pdf', 'wb') as f:\n"
          "    f.write(b'%%PDF-1.4\\n1 0 obj\\n<< /Length 6 >>\\nstream\\n'\n"
          "            + %r + b'\\nendstream\\nendobj\\n%%%%EOF\\n')\n")

CASES = [
    ('control: counts.bin (raw int32 x 100): element 13 changed from 13 '
     'to 14 (must be detected)', PROG_A % 13, PROG_A % 14, True),
    ('counts.bin (raw int32 x 100): element 13 changed from 13 to 10',
     PROG_A % 13, PROG_A % 10, False),
    ('counts.bin (raw int32 x 100): element 13 changed from 13 to 12',
     PROG_A % 13, PROG_A % 12, False),
    ('report.pdf: byte 0x0D in a binary stream changed to 0x0A',
     PROG_B % b'\x80\x01\x0d\xff\x02\x03', PROG_B % b'\x80\x01\x0a\xff\x02\x03',
     False),
    ('report.pdf: byte 0x0B in a binary stream changed to 0x0C',
     PROG_B % b'\x80\x01\x0b\xff\x02\x03', PROG_B % b'\x80\x01\x0c\xff\x02\x03',
     False),
]


def main():
    top = tempfile.mkdtemp(prefix='c12v3_')
    undetected = []
    problems = []
    try:
        for n, (desc, before, changed, control) in enumerate(CASES):
            (gen, ok_same, ok_changed, text) = gentest_then_change(before,
                                                                  changed,
                                                                  top, n)
            if not gen or not ok_same:
                problems.append('%s: generation/unchanged run did not work'
                                % desc)
            elif control and ok_changed:
                problems.append('control change was not detected?!')
            elif not control and ok_changed:
                how = [line.strip() for line in text.splitlines()
                       if 'FileCorrect(' in line or 'encoding=' in line]
                undetected.append((desc, ' '.join(how)))
    finally:
        shutil.rmtree(top)
    if undetected:
        print('C12 VIOLATED: the generated test still passes (all tests OK) '
              'after each of these single changes to a binary output file:')
        for (d, how) in undetected:
            print('   - %s\n       generated check: %s' % (d, how))
        for p in problems:
            print('   (note: %s)' % p)
        sys.exit(1)
    print('C12 ok' + (' (%s)' % '; '.join(problems) if problems else ''))
    sys.exit(0)


if __name__ == '__main__':
    main()
