"""C16: 'number' columns do not load back the values that were written.
The kwargs built from the CSVW metadata leave pandas' default (fast, lossy)
float parser on, which for many ordinary doubles -- especially those with
leading zeros after the decimal point -- returns a value that differs from
the written one in the 15th-16th significant digit."""
import json, os, random, shutil, sys, tempfile
import pandas as pd
from tdda.serial import csv2pandas

random.seed(16)
xs = [0.003580493746949883, 987.2592010330129, 0.1 + 0.2, None]
xs += [random.random() * 10 ** random.randint(-5, 6) for _ in range(200)]

d = tempfile.mkdtemp()
try:
    path = os.path.join(d, 'm.csv')
    with open(path, 'w', encoding='utf-8') as f:
        f.write('id,x\n')
        for i, x in enumerate(xs):
            f.write('%d,%s\n' % (i, '' if x is None else repr(x)))
    md = {
        '@context': 'http://www.w3.org/ns/csvw',
        'url': 'm.csv',
        'tableSchema': {'columns': [
            {'name': 'id', 'datatype': 'integer'},
            {'name': 'x', 'datatype': 'number'},
        ]},
    }
    mdpath = os.path.join(d, 'm-metadata.json')
    with open(mdpath, 'w') as f:
        json.dump(md, f)
    df = csv2pandas(path, mdpath=mdpath, verbosity=0)
finally:
    shutil.rmtree(d)

got = [None if pd.isna(v) else float(v) for v in df['x']]
bad = [(w, g) for w, g in zip(xs, got) if w != g]
if bad:
    print('C16 VIOLATED')
    print('  %d of %d written numbers load as a different float64:'
          % (len(bad), len(xs)))
    for w, g in bad[:5]:
        print('    written %r  loaded %r' % (w, g))
    sys.exit(1)
print('C16 ok')
