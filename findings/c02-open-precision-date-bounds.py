"""
C02: the 'open' precision of a min / max constraint is ignored when the bound
is a date: a date column whose minimum (maximum) equals the bound is reported
as satisfying an open (strict) bound.
"""
import sys

import pandas as pd

from tdda.constraints import verify_df


def verdicts(df, constraints, **kw):
    v = verify_df(df, {'fields': constraints}, repair=False, **kw)
    return {f: {k: bool(s) for k, s in r.items()}
            for f, r in v.fields.items()}, v.passes, v.failures


def main():
    df = pd.DataFrame({
        'd': pd.to_datetime(['2020-01-01', '2020-03-15', '2020-06-01']),
        'n': [1, 5, 9],
    })
    cons = {
        'd': {'type': 'date',
              'min': {'value': '2020-01-01', 'precision': 'open'},
              'max': {'value': '2020-06-01', 'precision': 'open'}},
        # the same situation for a numeric field, as a control
        'n': {'type': 'int',
              'min': {'value': 1, 'precision': 'open'},
              'max': {'value': 9, 'precision': 'open'}},
    }
    problems = []
    for eps in (0, 0.01, 0.5):
        got, passes, failures = verdicts(df, cons, epsilon=eps)
        # open: all values strictly greater (less) than the bound; the
        # smallest / largest value equals the bound, so both must fail.
        if got['d']['min'] or got['d']['max']:
            problems.append('epsilon=%s: date field d %r (control int field '
                            'n %r); passes=%d failures=%d'
                            % (eps, got['d'], got['n'], passes, failures))
    if problems:
        print('C02 VIOLATED')
        print('column d = 2020-01-01, 2020-03-15, 2020-06-01; constraints '
              'min {"value": "2020-01-01", "precision": "open"}, '
              'max {"value": "2020-06-01", "precision": "open"}')
        for p in problems:
            print(' -', p)
        print('expected: min False and max False for d (a value equal to an '
              'open bound is outside it), exactly as for the int field n')
        sys.exit(1)
    print('C02 ok')
    sys.exit(0)


if __name__ == '__main__':
    main()
