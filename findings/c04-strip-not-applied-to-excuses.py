import os
import shutil
import sys
import tempfile

from tdda.referencetest.referencetest import ReferenceTest


def verdicts(tmp, actual_text, ref_text, **opts):
    """Return {'string-vs-file': bool, 'file-vs-file': bool, 'list-of-files': bool}
    (True = the check passed) for the three public text entry points."""
    ReferenceTest.set_defaults(verbose=False, tmp_dir=tmp)
    ref = os.path.join(tmp, 'ref.txt')
    act = os.path.join(tmp, 'actual.txt')
    with open(ref, 'w', encoding='utf-8') as f:
        f.write(ref_text)
    with open(act, 'w', encoding='utf-8') as f:
        f.write(actual_text)
    out = {}
    for name, call in [
        ('string-vs-file',
         lambda rt: rt.assertStringCorrect(actual_text, ref, **opts)),
        ('file-vs-file',
         lambda rt: rt.assertTextFileCorrect(act, ref, **opts)),
        ('list-of-files',
         lambda rt: rt.assertTextFilesCorrect([act], [ref], **opts)),
    ]:
        seen = []
        rt = ReferenceTest(lambda ok, msg, seen=seen: seen.append(bool(ok)))
        call(rt)
        out[name] = seen[-1]
    return out


def main():
    tmp = tempfile.mkdtemp(prefix='c04v3_')
    try:
        bad = []
        # In every case the two texts are equivalent AFTER the requested
        # per-line stripping, modulo the other declared option, so C04 says
        # the check must pass.
        cases = [
            # rstrip + ignore_patterns: after rstrip the lines differ only
            # in the number, which the pattern excuses
            ('run id 123   \nok\n', 'run id 456\nok\n',
             dict(rstrip=True, ignore_patterns=[r'\d+'])),
            # lstrip + ignore_patterns
            ('    id 123\n', 'id 456\n',
             dict(lstrip=True, ignore_patterns=[r'\d+'])),
            # lstrip + permutations: after lstrip the lines are a permutation
            ('  alpha\nbeta\n', 'beta\nalpha\n',
             dict(lstrip=True, max_permutation_cases=2)),
            # rstrip + permutations
            ('alpha \nbeta\n', 'beta\nalpha\n',
             dict(rstrip=True, max_permutation_cases=2)),
        ]
        for actual, ref, opts in cases:
            v = verdicts(tmp, actual, ref, **opts)
            for entry, passed in v.items():
                if not passed:
                    bad.append('%s: actual %r vs reference %r with %r '
                               'FAILS, should pass'
                               % (entry, actual, ref, opts))
        # controls: each option on its own works
        print('control rstrip only       :',
              verdicts(tmp, 'run id 123   \n', 'run id 123\n', rstrip=True))
        print('control pattern only      :',
              verdicts(tmp, 'run id 123\n', 'run id 456\n',
                       ignore_patterns=[r'\d+']))
        print('control permutation only  :',
              verdicts(tmp, 'alpha\nbeta\n', 'beta\nalpha\n',
                       max_permutation_cases=2))
        if bad:
            print('C04 VIOLATED')
            for b in bad:
                print('  ' + b)
            return 1
        print('C04 ok')
        return 0
    finally:
        shutil.rmtree(tmp, ignore_errors=True)


if __name__ == '__main__':
    sys.exit(main())
