"""
C17: 'tdda detect INPUT CONSTRAINTS' with the output file omitted.  The
detect usage text says the output name "Can be - (or missing) to write to
standard output", but with it missing the command prints nothing at all
(no records, no summary), although the library finds failing records in the
same DataFrame with the same constraints.
"""
import io
import os
import shutil
import subprocess
import sys
import tempfile

import pandas as pd

from tdda.constraints.pd.constraints import discover_df, detect_df, load_df
from tdda.constraints.pd.detect import USAGE

GOOD = 'n,f,b\n1,1.5,True\n2,2.5,False\n3,,True\n'
BAD = 'n,f,b\n1,1.5,True\n20,-2.5,False\n3,,True\n-4,9.0,True\n'


def cli(args, cwd):
    return subprocess.run([sys.executable, '-m', 'tdda.constraints.console']
                          + args, cwd=cwd, capture_output=True, text=True)


def main():
    tmp = tempfile.mkdtemp()
    try:
        good = os.path.join(tmp, 'good.csv')
        bad = os.path.join(tmp, 'bad.csv')
        tdda = os.path.join(tmp, 'good.tdda')
        with open(good, 'w') as f:
            f.write(GOOD)
        with open(bad, 'w') as f:
            f.write(BAD)
        with open(tdda, 'w') as f:
            f.write(discover_df(load_df(good)).to_json())

        v = detect_df(load_df(bad), tdda, per_constraint=True,
                      output_fields=[], rownumber_is_index=False)
        lib = v.detected()
        n_lib = len(lib)

        r = cli(['detect', bad, tdda], tmp)
        try:
            got = pd.read_csv(io.StringIO(r.stdout))
            n_cli = len(got) if 'n_failures' in list(got) else 0
        except Exception:
            n_cli = 0
        documented = 'or missing' in USAGE
        if n_lib > 0 and n_cli != n_lib:
            print('C17 VIOLATED')
            print('  library detect_df: %d failing records (%d passing)'
                  % (v.detection.n_failing_records,
                     v.detection.n_passing_records))
            print('  tdda detect bad.csv good.tdda  (no output file; usage '
                  'text documents this as standard output: %s)' % documented)
            print('  exit status %d, stdout = %r' % (r.returncode, r.stdout))
            return 1
        print('C17 ok')
        return 0
    finally:
        shutil.rmtree(tmp, ignore_errors=True)


if __name__ == '__main__':
    sys.exit(main())
