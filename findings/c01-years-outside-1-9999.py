# -*- coding: utf-8 -*-
"""
C01 witness: discovery raises ValueError on a naive datetime64[s|ms|us]
column that holds a date whose year is outside 1..9999 (a year-0 "zero date"
sentinel, a BC date in historical data, a far-future date).

pandas (>= 2) stores such values without trouble at second / millisecond /
microsecond resolution, and tdda types the column 'date'.
PandasConstraintCalculator.calc_min()/calc_max() then convert the column
minimum / maximum with Timestamp.to_pydatetime(), which cannot represent the
year, so the whole discovery fails.
"""
import os
import shutil
import sys
import tempfile
import traceback

import numpy as np
import pandas as pd

from tdda.constraints import discover_df, verify_df, detect_df


def frames():
    yield ('datetime64[s] with a year-0 sentinel',
           pd.DataFrame({'id': [1, 2, 3],
                         'closed': pd.Series(np.array(['0000-01-01T00:00:00',
                                                       '2019-05-17T10:30:00',
                                                       '2021-11-02T08:00:00'],
                                                      dtype='datetime64[s]'))}))
    yield ('datetime64[ms] with a BC date',
           pd.DataFrame({'event': pd.Series(['Ides of March', 'Moon landing'],
                                            dtype=object),
                         'when': pd.Series(np.array(['-0043-03-15T00:00:00',
                                                     '1969-07-20T20:17:40'],
                                                    dtype='datetime64[ms]'))}))
    yield ('datetime64[us] with a far-future date',
           pd.DataFrame({'expires': pd.Series(np.array(['2030-01-01T00:00:00',
                                                        '10000-01-01T00:00:00',
                                                        'NaT'],
                                                       dtype='datetime64[us]'))}))


def roundtrip(df, inc_rex, tmpdir):
    problems = []
    constraints = discover_df(df.copy(), inc_rex=inc_rex)   # raises here
    if constraints is None:
        return ['discovery produced no constraints']
    as_dict = constraints.to_dict()
    path = os.path.join(tmpdir, 'c.tdda')
    with open(path, 'w', encoding='utf-8') as f:
        f.write(constraints.to_json())
    for form, cons in (('dict', as_dict), ('file', path)):
        for repair in (True, False):
            v = verify_df(df.copy(), cons, repair=repair)
            d = detect_df(df.copy(), cons, repair=repair)
            nbad = d.detection.n_failing_records if d.detection else 0
            if v.failures or d.failures or nbad:
                failed = {f: [k for k, ok in r.items() if not ok]
                          for f, r in v.fields.items() if r.failures}
                problems.append('%s, repair=%s: verify failures=%d %s, detect '
                                'failures=%d, failing records=%d'
                                % (form, repair, v.failures, failed,
                                   d.failures, nbad))
    return problems


def main():
    problems = []
    tmpdir = tempfile.mkdtemp()
    try:
        for label, df in frames():
            assert str(df.dtypes.iloc[-1]).startswith('datetime64'), df.dtypes
            for inc_rex in (False, True):
                what = '%s, inc_rex=%s' % (label, inc_rex)
                try:
                    for p in roundtrip(df, inc_rex, tmpdir):
                        problems.append('%s: %s' % (what, p))
                except Exception as e:
                    tb = [t for t in traceback.extract_tb(sys.exc_info()[2])
                          if 'tdda' in t.filename][-1]
                    problems.append('%s: raised %s: %s  [%s:%d in %s]'
                                    % (what, type(e).__name__, e,
                                       os.path.basename(tb.filename),
                                       tb.lineno, tb.name))
    finally:
        shutil.rmtree(tmpdir, ignore_errors=True)

    if problems:
        print('C01 VIOLATED: discovery/verification raised or failed on a '
              'frame with an extreme naive datetime')
        for p in problems:
            print('  ' + p)
        return 1
    print('C01 ok')
    return 0


if __name__ == '__main__':
    sys.exit(main())
