"""
C06 violation: for 64-bit integer columns with values above 2**53 (e.g.
snowflake-style ids) a min/max constraint can fail verification while
detection flags no record at all, because the per-record comparison is
done in float64 (c <= value * 1.0) while the verdict is computed with exact
Python int/float comparison.
"""
import sys

import pandas as pd

from tdda.constraints.pd.constraints import detect_df, verify_df, discover_df


def verdicts(v):
    return {f: {k: bool(r[k]) for k in r} for f, r in v.fields.items()}


def main():
    problems = []

    lo = 1712345678901234567
    hi = 1712345678901239999
    ref = pd.DataFrame({'id': [lo, lo + 1000, hi]})
    cons = discover_df(ref).to_dict()      # type int, min lo, max hi, ...
    print('discovered:', dict(cons['fields']['id']))

    bad = hi + 165                          # clearly above the maximum
    df = pd.DataFrame({'id': [lo, lo + 1000, bad]})
    orig = df.copy()

    v = verify_df(df, cons, repair=False)
    d = detect_df(df, cons, repair=False, per_constraint=True,
                  output_fields=[], write_all=True)
    print('verify :', verdicts(v)['id'])
    print('detect :', verdicts(d)['id'])
    if verdicts(v) != verdicts(d):
        problems.append('verdicts differ')
    det = d.detected()
    print(det.to_string())
    print('records passing=%d failing=%d'
          % (d.detection.n_passing_records, d.detection.n_failing_records))

    if not verdicts(d)['id']['max']:
        flags = list(det['id_max_ok'])
        expected = [bool(x <= hi) for x in orig['id']]
        if flags != expected:
            problems.append('max constraint (%d) fails because of id %d, '
                            'but id_max_ok=%s (expected %s); '
                            'n_failures=%s, failing records reported=%d'
                            % (hi, bad, flags, expected,
                               list(det['n_failures']),
                               d.detection.n_failing_records))
    else:
        print('max constraint did not fail')

    if problems:
        print('C06 VIOLATED')
        for p in problems:
            print(' -', p)
        sys.exit(1)
    print('C06 ok')
    sys.exit(0)


if __name__ == '__main__':
    main()
