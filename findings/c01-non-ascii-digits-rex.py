# -*- coding: utf-8 -*-
r"""
C01 witness: with regular-expression discovery on, a string column that holds
non-ASCII decimal digits (Arabic-Indic, full-width, Devanagari, ...) fails the
'rex' constraint discovered from it.

rexpy classifies every character for which str.isdecimal() is true as a Digit,
generalises runs of them, checks coverage internally with \d (which, under
re.UNICODE, matches those digits) and then rewrites the result in its default
'portable' dialect, where Digit is written [0-9].  The emitted expression no
longer matches the strings it was built from.
"""
import os
import shutil
import sys
import tempfile

import pandas as pd

from tdda.constraints import discover_df, verify_df, detect_df


def main():
    df = pd.DataFrame({
        # Arabic-Indic digits, e.g. postcodes typed on an Arabic keyboard
        'postcode': pd.Series(['١٢٣٤٥', '٦٧٨٩٠', '٢٤٦٨٠', None], dtype=object),
        # one value typed with a full-width (CJK input method) digit
        'qty': pd.Series(['12', '７', '305', '41'], dtype=object),
        'n': [1, 2, 3, 4],
    })
    problems = []
    tmpdir = tempfile.mkdtemp()
    try:
        constraints = discover_df(df.copy(), inc_rex=True)
        as_dict = constraints.to_dict()
        path = os.path.join(tmpdir, 'c.tdda')
        with open(path, 'w', encoding='utf-8') as f:
            f.write(constraints.to_json())
        print('discovered rex for postcode:',
              as_dict['fields']['postcode'].get('rex'))
        print('discovered rex for qty     :',
              as_dict['fields']['qty'].get('rex'))
        for form, cons in (('dict', as_dict), ('file', path)):
            for repair in (True, False):
                v = verify_df(df.copy(), cons, repair=repair)
                if v.failures:
                    failed = {f: [k for k, ok in r.items() if not ok]
                              for f, r in v.fields.items() if r.failures}
                    problems.append('verify_df(%s, repair=%s): %d failing '
                                    'constraint(s): %s'
                                    % (form, repair, v.failures, failed))
                d = detect_df(df.copy(), cons, repair=repair)
                nbad = d.detection.n_failing_records if d.detection else 0
                if d.failures or nbad:
                    problems.append('detect_df(%s, repair=%s): %d failing '
                                    'constraint(s), %d failing record(s)'
                                    % (form, repair, d.failures, nbad))
    finally:
        shutil.rmtree(tmpdir, ignore_errors=True)

    if problems:
        print('C01 VIOLATED: the frame fails constraints discovered from it')
        for p in problems:
            print('  ' + p)
        return 1
    print('C01 ok')
    return 0


if __name__ == '__main__':
    sys.exit(main())
