"""
C15: the file named as 'actual' in the failure message of assertStringCorrect
must hold exactly the actual string.  With remove_lines or preprocess it holds
the *processed* lines instead (removed lines are missing / preprocess applied),
although the message calls it "raw" and suggests diffing it against the
untouched reference file.
"""
import os
import re
import shutil
import sys
import tempfile

from tdda.referencetest.referencetest import ReferenceTest


class Failed(Exception):
    pass


def assert_fn(ok, msg):
    if not ok:
        raise Failed(msg)


def run(base, label, actual, reference, **kw):
    tmp = os.path.join(base, 'tmp-' + label)
    os.mkdir(tmp)
    ref_path = os.path.join(base, 'ref-%s.txt' % label)
    with open(ref_path, 'w') as f:
        f.write(reference)
    ReferenceTest.set_defaults(tmp_dir=tmp, verbose=False)
    ref = ReferenceTest(assert_fn)
    try:
        ref.assertStringCorrect(actual, ref_path, **kw)
    except Failed as e:
        msg = str(e)
    else:
        return ['%s: assertion unexpectedly passed' % label]
    m = re.search(r'Compare (?:raw )?with:\n    diff (\S+) (\S+)', msg)
    if not m:
        return ['%s: no comparison command in message' % label]
    actual_file, expected_file = m.group(1), m.group(2)
    problems = []
    if not (os.path.exists(actual_file) and os.path.exists(expected_file)):
        problems.append('%s: command names a missing file' % label)
        return problems
    with open(actual_file, newline='') as f:
        written = f.read()
    # Be generous: only compare line content (ignore a final-newline
    # difference), so that this shows whole lines changed / lost.
    if written.splitlines() != actual.splitlines():
        problems.append(
            '%s: message says\n        diff %s %s\n'
            '    actual string was  %r\n'
            '    but %s holds %r'
            % (label, actual_file, expected_file, actual,
               os.path.basename(actual_file), written)
        )
    return problems


def main():
    base = tempfile.mkdtemp(prefix='c15v1-')
    saved = (ReferenceTest.tmp_dir, ReferenceTest.verbose)
    try:
        problems = []
        # 1. remove_lines: an optional DEBUG line is present in the actual
        problems += run(
            base, 'remove_lines',
            'header\nDEBUG cache miss\ntotal 41\n',
            'header\ntotal 42\n',
            remove_lines=['DEBUG'],
        )
        # 2. preprocess: both sides are upper-cased before comparison
        problems += run(
            base, 'preprocess',
            'header\ntotal 41\n',
            'header\ntotal 42\n',
            preprocess=lambda lines: [s.upper() for s in lines],
        )
    finally:
        ReferenceTest.tmp_dir, ReferenceTest.verbose = saved
        shutil.rmtree(base)
    if problems:
        print('C15 VIOLATED')
        for p in problems:
            print('  ' + p)
        sys.exit(1)
    print('C15 ok')
    sys.exit(0)


if __name__ == '__main__':
    main()
