"""
C19 demo: a long-form tagging option placed after '-w <kind>' is swallowed
as a 'kind' by _set_flags_from_argv, so --tagged runs every test and
--istagged executes tests (with reference regeneration switched on).
"""
import os
import re
import shutil
import subprocess
import sys
import tempfile

MODULE = '''
from tdda.referencetest import ReferenceTestCase, tag

class TestA(ReferenceTestCase):
    @tag
    def test_a1(self): print('RAN TestA.test_a1')
    def test_a2(self): print('RAN TestA.test_a2')

@tag
class TestB(ReferenceTestCase):
    def test_b1(self): print('RAN TestB.test_b1')
    def test_b2(self): print('RAN TestB.test_b2')

class TestC(ReferenceTestCase):
    def test_c1(self): print('RAN TestC.test_c1')

if __name__ == '__main__':
    ReferenceTestCase.main()
'''

TAGGED = ['TestA.test_a1', 'TestB.test_b1', 'TestB.test_b2']


def run(tmp, args):
    p = subprocess.run([sys.executable, os.path.join(tmp, 'mytests.py')] + args,
                       cwd=tmp, stdout=subprocess.PIPE,
                       stderr=subprocess.STDOUT, text=True)
    return sorted(re.findall(r'RAN (\S+)', p.stdout)), p.stdout


def main():
    tmp = tempfile.mkdtemp(prefix='c19v1')
    problems = []
    try:
        with open(os.path.join(tmp, 'mytests.py'), 'w') as f:
            f.write(MODULE)
        cases = [
            (['--tagged', '-w', 'graph'], TAGGED),     # works
            (['-w', 'graph', '-1'], TAGGED),           # works (short form)
            (['-w', 'graph', '--tagged'], TAGGED),     # long form after -w
            (['--write', 'graph', '--tagged'], TAGGED),
            (['-w', 'graph', '--istagged'], []),       # listing runs none
        ]
        for args, expected in cases:
            ran, out = run(tmp, args)
            status = 'ok' if ran == expected else 'WRONG'
            print('%-32s executed=%s expected=%s  %s'
                  % (' '.join(args), ran, expected, status))
            if ran != expected:
                problems.append((args, ran, expected))
    finally:
        shutil.rmtree(tmp, ignore_errors=True)
    if problems:
        print('C19 VIOLATED')
        for args, ran, expected in problems:
            print('  argv %s: executed %s, expected exactly %s'
                  % (args, ran, expected))
        sys.exit(1)
    print('C19 ok')
    sys.exit(0)


if __name__ == '__main__':
    main()
