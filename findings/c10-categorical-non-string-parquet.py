"""
C10 witness: a DataFrame with a categorical column whose categories are not
strings (e.g. df['year'].astype('category') on integers) is regenerated as
parquet, and then fails its own assertion in normal mode - at every
type_matching level.

check_dataframe() turns every categorical column of both frames into dtype
'string' (replace_cats), but the parquet written by regeneration reads back
as plain int64 (parquet only restores string dictionaries as categoricals),
so actual is 'string' and expected is 'int64'.
"""
import os
import shutil
import sys
import tempfile

import pandas as pd

from tdda.referencetest.referencetest import ReferenceTest


def make(refdir, regenerate):
    ReferenceTest.regenerate.clear()
    if regenerate:
        ReferenceTest.set_regeneration('csv')    # == --write csv
        # ('csv' is the default kind label of assertDataFrameCorrect)

    def assert_fn(ok, msg):
        if not ok:
            raise AssertionError(msg)

    r = ReferenceTest(assert_fn)
    r.set_data_location(refdir)
    return r


def main():
    top = tempfile.mkdtemp(prefix='c10v3-')
    saved = (dict(ReferenceTest.regenerate), ReferenceTest.verbose,
             ReferenceTest.tmp_dir, tempfile.tempdir)
    tempfile.tempdir = top      # failure temporaries go under our directory
    problems = []
    try:
        refdir = os.path.join(top, 'ref')
        os.mkdir(refdir)
        ReferenceTest.set_defaults(verbose=False, tmp_dir=top)

        def frame():
            df = pd.DataFrame({'year': [2019, 2020, 2019, 2021],
                               'sales': [1.5, 2.5, 3.5, 4.5]})
            df['year'] = df['year'].astype('category')
            return df

        # control: string categories round-trip fine
        control = pd.DataFrame({'g': pd.Categorical(['a', 'b', 'a'])})

        cases = [('int categories, strict', frame, {}),
                 ('int categories, medium', frame,
                  {'type_matching': 'medium'}),
                 ('int categories, permissive', frame,
                  {'type_matching': 'permissive'}),
                 ('string categories (control)', lambda: control, {})]
        for i, (label, mkdf, kw) in enumerate(cases):
            name = 'ref%d.parquet' % i
            make(refdir, True).assertDataFrameCorrect(mkdf(), name, **kw)
            if not os.path.exists(os.path.join(refdir, name)):
                problems.append('%s: reference not written' % label)
                continue
            try:
                make(refdir, False).assertDataFrameCorrect(mkdf(), name, **kw)
            except AssertionError as e:
                lines = [l for l in str(e).splitlines() if 'Wrong' in l]
                problems.append(
                    '%s: regenerated %s, then the same assertion fails in '
                    'normal mode: %s' % (label, name,
                                         (lines or [str(e)[:200]])[0]))
    finally:
        ReferenceTest.regenerate.clear()
        ReferenceTest.regenerate.update(saved[0])
        ReferenceTest.verbose = saved[1]
        ReferenceTest.tmp_dir = saved[2]
        tempfile.tempdir = saved[3]
        shutil.rmtree(top, ignore_errors=True)

    if problems:
        print('C10 VIOLATED')
        for p in problems:
            print('  -', p)
        return 1
    print('C10 ok')
    return 0


if __name__ == '__main__':
    sys.exit(main())
