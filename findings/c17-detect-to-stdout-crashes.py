"""
C17: 'tdda detect INPUT CONSTRAINTS -' (detection output to standard output,
as documented in the detect usage text) ends with an UnboundLocalError
traceback and exit status 1, whereas the same detection written to a file
(CLI or library) succeeds.
"""
import io
import os
import shutil
import subprocess
import sys
import tempfile

import pandas as pd

from tdda.constraints.pd.constraints import discover_df, detect_df, load_df

GOOD = 'n,f,b\n1,1.5,True\n2,2.5,False\n3,,True\n'
BAD = 'n,f,b\n1,1.5,True\n20,-2.5,False\n3,,True\n-4,9.0,True\n'


def cli(args, cwd):
    return subprocess.run([sys.executable, '-m', 'tdda.constraints.console']
                          + args, cwd=cwd, capture_output=True, text=True)


def main():
    tmp = tempfile.mkdtemp()
    try:
        good = os.path.join(tmp, 'good.csv')
        bad = os.path.join(tmp, 'bad.csv')
        tdda = os.path.join(tmp, 'good.tdda')
        with open(good, 'w') as f:
            f.write(GOOD)
        with open(bad, 'w') as f:
            f.write(BAD)
        with open(tdda, 'w') as f:
            f.write(discover_df(load_df(good)).to_json())

        # the library (and the CLI) writing to a file: fine
        libout = os.path.join(tmp, 'lib.csv')
        detect_df(load_df(bad), tdda, outpath=libout, per_constraint=True,
                  output_fields=[], rownumber_is_index=False)
        expected = pd.read_csv(libout)
        r_file = cli(['detect', bad, tdda, os.path.join(tmp, 'cli.csv')], tmp)

        # the CLI writing to standard output
        r = cli(['detect', bad, tdda, '-'], tmp)
        problems = []
        if r.returncode != 0:
            last = r.stderr.strip().splitlines()[-1] if r.stderr.strip() else ''
            problems.append('tdda detect bad.csv good.tdda -  exited with '
                            'status %d (to a file: status %d); stderr ends: %s'
                            % (r.returncode, r_file.returncode, last))
        try:
            got = pd.read_csv(io.StringIO(r.stdout))
            if not got.equals(expected):
                problems.append('records on stdout differ from library output')
        except Exception as e:
            problems.append('stdout not parseable as CSV: %r' % e)
        if problems:
            print('C17 VIOLATED')
            for p in problems:
                print('  ' + p)
            return 1
        print('C17 ok')
        return 0
    finally:
        shutil.rmtree(tmp, ignore_errors=True)


if __name__ == '__main__':
    sys.exit(main())
