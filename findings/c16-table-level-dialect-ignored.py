"""C16: the CSVW 'dialect' (delimiter, encoding, header) is only honoured when
it sits at the top level of the metadata document.  A dialect attached to the
table description inside "tables" -- which is where CSVW puts it when a
metadata file describes several CSV files with different delimiters -- is
silently ignored, so the file is read with ',' / utf-8 / one header row."""
import json, os, shutil, sys, tempfile
import datetime as dt
import pandas as pd
from tdda.serial import csv2pandas

names = ['Zoë', None, 'Jürgen']
ns = [1, 2, None]
whens = [dt.datetime(2020, 2, 1), None, dt.datetime(1999, 12, 13)]

d = tempfile.mkdtemp()
try:
    path = os.path.join(d, 'people.csv')
    with open(path, 'w', encoding='latin-1') as f:
        f.write('name|n|when\n')
        for a, b, c in zip(names, ns, whens):
            f.write('|'.join(['' if a is None else a,
                              '' if b is None else str(b),
                              '' if c is None else c.strftime('%d.%m.%Y')])
                    + '\n')
    md = {
        '@context': 'http://www.w3.org/ns/csvw',
        'tables': [{
            'url': 'people.csv',
            'dialect': {'delimiter': '|', 'encoding': 'latin-1',
                        'header': True},
            'tableSchema': {'columns': [
                {'name': 'name', 'datatype': 'string'},
                {'name': 'n', 'datatype': 'integer'},
                {'name': 'when',
                 'datatype': {'base': 'date', 'format': 'dd.MM.yyyy'}},
            ]},
        }],
    }
    mdpath = os.path.join(d, 'people-metadata.json')
    with open(mdpath, 'w') as f:
        json.dump(md, f)
    try:
        df = csv2pandas(path, mdpath=mdpath, verbosity=0)
    except Exception as e:
        print('C16 VIOLATED')
        print('  table-level dialect {"delimiter": "|", "encoding": '
              '"latin-1"} was ignored')
        print('  csv2pandas raised %s: %s' % (type(e).__name__, e))
        sys.exit(1)
finally:
    shutil.rmtree(d)

def col(c):
    return [None if pd.isna(v) else v for v in df[c]] if c in df else None

ok = (list(df.columns) == ['name', 'n', 'when']
      and col('name') == names and col('n') == ns
      and [None if v is None else v.to_pydatetime() for v in col('when')]
          == whens)
if not ok:
    print('C16 VIOLATED')
    print('  loaded columns:', list(df.columns))
    print(df)
    sys.exit(1)
print('C16 ok')
