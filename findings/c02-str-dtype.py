"""
C02: a string column held in pandas' own string dtype (the default for
string data in pandas 3: dtype 'str') is classed as tdda type 'other', so the
type, min_length, max_length and rex constraints are all reported failed on
data that satisfies them.  The same values in an object column pass.
"""
import os
import shutil
import sys
import tempfile

import pandas as pd

from tdda.constraints import verify_df
from tdda.constraints.pd.constraints import load_df

CONSTRAINTS = {'fields': {'name': {
    'type': 'string',
    'min_length': 2,
    'max_length': 2,
    'max_nulls': 0,
    'allowed_values': ['ab', 'cd', 'ef'],
    'rex': ['^[a-z]+$'],
}}}
EXPECTED = {'type': True, 'min_length': True, 'max_length': True,
            'max_nulls': True, 'allowed_values': True, 'rex': True}


def verdicts(df):
    v = verify_df(df, CONSTRAINTS, repair=False)
    return {k: bool(s) for k, s in v.fields['name'].items()}, v


def main():
    values = ['ab', 'cd', 'ef']
    problems = []

    # 1. frame built the ordinary way
    df = pd.DataFrame({'name': values})
    got, v = verdicts(df)
    if got != EXPECTED:
        problems.append('DataFrame({"name": %r}) (dtype %s): verdicts %r, '
                        'passes=%d failures=%d'
                        % (values, df['name'].dtype, got, v.passes,
                           v.failures))

    # 2. frame read from a CSV file with tdda's own loader
    tmp = tempfile.mkdtemp()
    try:
        path = os.path.join(tmp, 'names.csv')
        with open(path, 'w') as f:
            f.write('name\nab\ncd\nef\n')
        dfc = load_df(path)
        gotc, vc = verdicts(dfc)
        if gotc != EXPECTED:
            problems.append('tdda load_df(names.csv) (dtype %s): verdicts %r'
                            % (dfc['name'].dtype, gotc))
    finally:
        shutil.rmtree(tmp)

    # control: identical values in an object column
    dfo = pd.DataFrame({'name': pd.Series(values, dtype=object)})
    goto, _ = verdicts(dfo)

    if problems:
        print('C02 VIOLATED')
        print('pandas', pd.__version__)
        for p in problems:
            print(' -', p)
        print('expected (every value is a 2-letter lower-case string):',
              EXPECTED)
        print('same values in an object column give:', goto)
        sys.exit(1)
    print('C02 ok')
    sys.exit(0)


if __name__ == '__main__':
    main()
