"""regression witness: date bounds under a type LIST must still be dates after a write/load cycle"""
import datetime, json, os, shutil, sys, tempfile
import pandas as pd
from tdda.constraints.base import DatasetConstraints
from tdda.constraints import verify_df

d = tempfile.mkdtemp()
bad = []
try:
    df = pd.DataFrame({'d': pd.to_datetime(['2020-06-01', '2020-07-01'])})
    for t in (['date'], ['date', 'string'], {'value': 'date'}):
        cons = {'fields': {'d': {'type': t, 'min': '2020-01-01 00:00:00', 'max': '2021-01-01 00:00:00'}}}
        c = DatasetConstraints()
        c.initialize_from_dict(cons)
        p = os.path.join(d, 'c.tdda')
        open(p, 'w').write(c.to_json())
        v = verify_df(df, p)
        if not (v.fields['d']['min'] and v.fields['d']['max']):
            bad.append((t, dict(v.fields['d'])))
finally:
    shutil.rmtree(d, ignore_errors=True)
if bad:
    print('C09 VIOLATED', bad)
    sys.exit(1)
print('C09 ok')
