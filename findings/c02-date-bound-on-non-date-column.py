"""
C02: date-valued min / max constraints on a field that is NOT a date column.
The column minimum / maximum is pushed through pd.to_datetime() before the
type-compatibility check, so
  * a string column holding something that is not a date makes verify_df raise
    DateParseError instead of reporting the constraints failed, and
  * an int column is silently read as nanoseconds since 1970 and its max
    constraint is reported SATISFIED.
"""
import sys

import pandas as pd

from tdda.constraints import verify_df

CONS = {'when': {'type': 'date',
                 'min': '2019-01-01',
                 'max': '2021-12-31'}}


def run(df):
    try:
        v = verify_df(df, {'fields': CONS}, repair=False)
    except Exception as e:
        return 'raised %s: %s' % (type(e).__name__, e)
    return {k: bool(s) for k, s in v.fields['when'].items()}


def main():
    problems = []

    # a date column from a CSV file with a junk entry arrives as strings
    s = pd.DataFrame({'when': pd.Series(['2020-03-01', '2020-07-15', 'n/a'],
                                        dtype=object)})
    got = run(s)
    # the values are strings, not dates: type fails; a string can not meet
    # a date bound (types_compatible() exists for this), so min/max fail
    expected = {'type': False, 'min': False, 'max': False}
    if got != expected:
        problems.append('string column %r: %s' % (list(s['when']), got))

    # dates held as yyyymmdd integers
    i = pd.DataFrame({'when': [20200301, 20200715]})
    goti = run(i)
    if goti != expected:
        problems.append('int column %r: %s' % (list(i['when']), goti))

    if problems:
        print('C02 VIOLATED')
        print('constraints:', CONS)
        for p in problems:
            print(' -', p)
        print('expected for both:', expected,
              '(a verdict for every constraint; a non-date value never '
              'meets a date bound)')
        sys.exit(1)
    print('C02 ok')
    sys.exit(0)


if __name__ == '__main__':
    main()
