# -*- coding: utf-8 -*-
"""
C01 witness: discovery raises on a categorical column whose categories are
not strings (integer codes made categorical with astype('category'), the
Interval bins produced by pd.cut / pd.qcut, booleans, timestamps ...).

pandas_tdda_type() calls every CategoricalDtype column 'string' without
looking at the categories, so discover_field_constraints() goes down the
string branch and computes len(v.decode('UTF-8')) for values that are neither
str nor bytes.
"""
import os
import shutil
import sys
import tempfile
import traceback

import pandas as pd

from tdda.constraints import discover_df, verify_df, detect_df


def frames():
    ages = pd.Series([23, 37, 41, 68, 15, 52])
    yield ('integer categories (astype("category"))',
           pd.DataFrame({'id': [1, 2, 3, 4, 5, 6],
                         'rating': pd.Series([1, 5, 3, 5, 4, 1])
                                     .astype('category')}))
    yield ('Interval categories (pd.cut)',
           pd.DataFrame({'age': ages,
                         'age_band': pd.cut(ages, bins=[0, 18, 40, 65, 120])}))
    yield ('boolean categories',
           pd.DataFrame({'flag': pd.Categorical([True, False, True])}))


def roundtrip(df, inc_rex, tmpdir):
    """discover, then verify/detect as dict and as file; return problems"""
    problems = []
    constraints = discover_df(df.copy(), inc_rex=inc_rex)   # raises here
    if constraints is None:
        return problems
    as_dict = constraints.to_dict()
    path = os.path.join(tmpdir, 'c.tdda')
    with open(path, 'w', encoding='utf-8') as f:
        f.write(constraints.to_json())
    for form, cons in (('dict', as_dict), ('file', path)):
        for repair in (True, False):
            v = verify_df(df.copy(), cons, repair=repair)
            d = detect_df(df.copy(), cons, repair=repair)
            nbad = d.detection.n_failing_records if d.detection else 0
            if v.failures or d.failures or nbad:
                problems.append('%s, repair=%s: verify failures=%d, detect '
                                'failures=%d, failing records=%d'
                                % (form, repair, v.failures, d.failures, nbad))
    return problems


def main():
    problems = []
    tmpdir = tempfile.mkdtemp()
    try:
        for label, df in frames():
            for inc_rex in (False, True):
                what = '%s, inc_rex=%s' % (label, inc_rex)
                try:
                    for p in roundtrip(df, inc_rex, tmpdir):
                        problems.append('%s: %s' % (what, p))
                except Exception as e:
                    tb = traceback.extract_tb(sys.exc_info()[2])[-1]
                    problems.append('%s: raised %s: %s  [%s:%d in %s]'
                                    % (what, type(e).__name__, e,
                                       os.path.basename(tb.filename),
                                       tb.lineno, tb.name))
    finally:
        shutil.rmtree(tmpdir, ignore_errors=True)

    if problems:
        print('C01 VIOLATED: discovery/verification raised or failed on a '
              'frame with a categorical column')
        for p in problems:
            print('  ' + p)
        return 1
    print('C01 ok')
    return 0


if __name__ == '__main__':
    sys.exit(main())
