"""
C05: changing a column's type always fails (type_matching strict is the
default: dtype names must be equal).  check_dataframe converts categorical
columns to 'string' (replace_cats) BEFORE the type check, so at the strict
level a 'category' column is accepted where the reference has a 'string'
column (and the other way round), and a categorical of integers is accepted
against a string column / a categorical of strings.
"""
import shutil
import sys
import tempfile
import warnings

warnings.simplefilter('ignore')

import pandas as pd

from tdda.referencetest.checkpandas import PandasComparison

td = tempfile.mkdtemp()
problems = []
try:
    c = PandasComparison(verbose=False, tmp_dir=td)
    S = pd.Series
    cases = [
        ('category(str) actual  vs  string reference',
         S(['x', 'y', None], dtype='category'),
         S(['x', 'y', None], dtype='string')),
        ('string actual  vs  category(str) reference',
         S(['x', 'y', None], dtype='string'),
         S(['x', 'y', None], dtype='category')),
        ('category(int64) actual  vs  string reference',
         S([1, 2, 2]).astype('category'),
         S(['1', '2', '2'], dtype='string')),
        ('category(int64) actual  vs  category(str) reference',
         S([1, 2, 2]).astype('category'),
         S(['1', '2', '2'], dtype='category')),
        ('category(bool) actual  vs  category(str) reference',
         S([True, False]).astype('category'),
         S(['True', 'False'], dtype='category')),
    ]
    for label, a, b in cases:
        act = pd.DataFrame({'k': range(len(a)), 'c': a})
        ref = pd.DataFrame({'k': range(len(b)), 'c': b})
        for tm in (None, 'strict'):
            try:
                r = c.check_dataframe(act.copy(), ref.copy(),
                                      type_matching=tm)
                got = 'PASS' if r.failures == 0 else 'FAIL'
            except Exception as e:
                got = 'raised %s: %s' % (type(e).__name__, e)
            print('%-52s dtypes %s vs %s, type_matching=%s: %s'
                  % (label, act['c'].dtype, ref['c'].dtype, tm, got))
            if got != 'FAIL':
                problems.append(
                    '%s (actual dtype %s, expected dtype %s, categories %s '
                    'vs %s), type_matching=%s: expected FAIL, got %s'
                    % (label, act['c'].dtype, ref['c'].dtype,
                       getattr(act['c'].dtype, 'categories', None),
                       getattr(ref['c'].dtype, 'categories', None),
                       tm, got))
    # control: string vs object at strict does fail
    r = c.check_dataframe(pd.DataFrame({'c': S(['x'], dtype='string')}),
                          pd.DataFrame({'c': S(['x'], dtype=object)}))
    print('control string vs object strict:',
          'PASS' if r.failures == 0 else 'FAIL')
finally:
    shutil.rmtree(td, ignore_errors=True)

if problems:
    print('C05 VIOLATED')
    for p in problems:
        print('  ' + p)
    sys.exit(1)
print('C05 ok')
sys.exit(0)
