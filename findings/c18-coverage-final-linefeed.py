"""
C18: coverage over-counts examples that end in a line feed.

rexpy itself decides which examples an expression accounts for with
re.fullmatch (Extractor.find_non_matches), which is why 'abc\\n' gets an
expression of its own.  The coverage functions (rex_coverage,
coverage_matrices) use re.match on '^...$' instead, and '$' also matches
just before a final '\\n'.  So 'abc\\n' is counted for '^[a-z]{3}$' as well:
its coverage is too large, and incremental coverage credits 'abc\\n' to an
expression that does not match it, leaving its real expression with nothing.
"""
import re
import sys

from tdda.rexpy.rexpy import Extractor

# e.g. lines read from a file where some values kept their line terminator
EXAMPLES = {'abc': 3, 'abd': 1, 'abc\n': 2, 'xyz\n': 1}

problems = []
x = Extractor(EXAMPLES)
rex = x.results.rex
print('expressions: %r' % rex)

for dedup in (False, True):
    truth = [sum((1 if dedup else n) for (s, n) in EXAMPLES.items()
                 if re.fullmatch(r, s, re.U | re.S))
             for r in rex]
    cov = x.coverage(dedup=dedup)
    if cov != truth:
        problems.append('dedup=%s: coverage() = %s, but the expressions really '
                        'match %s examples' % (dedup, cov, truth))

    # every example must be credited to an expression that matches it,
    # so an expression can never be credited with more than it matches
    inc = x.incremental_coverage(dedup=dedup)
    for (r, v) in inc.items():
        t = sum((1 if dedup else n) for (s, n) in EXAMPLES.items()
                if re.fullmatch(r, s, re.U | re.S))
        if v > t:
            problems.append('dedup=%s: incremental coverage credits %d examples '
                            'to %r, which matches only %d' % (dedup, v, r, t))
    full = x.full_incremental_coverage(dedup=dedup)
    for (r, c) in full.items():
        t = sum(n for (s, n) in EXAMPLES.items()
                if re.fullmatch(r, s, re.U | re.S))
        tu = sum(1 for (s, n) in EXAMPLES.items()
                 if re.fullmatch(r, s, re.U | re.S))
        if (c.n, c.n_uniq) != (t, tu):
            problems.append('dedup=%s: full_incremental_coverage gives n=%d '
                            'n_uniq=%d for %r; really %d and %d'
                            % (dedup, c.n, c.n_uniq, r, t, tu))

if problems:
    print('C18 VIOLATED')
    for p in problems:
        print('  -', p)
    sys.exit(1)
print('C18 ok')
sys.exit(0)
