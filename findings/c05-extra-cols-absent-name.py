"""
C05: a copy of a frame always passes.  check_extra_cols given as a list
("extra fields in the actual dataset which, if found, will cause the check
to fail") names columns that are normally NOT present; when they are indeed
absent from the actual frame, check_dataframe treats them as extra columns
and then raises KeyError.
"""
import shutil
import sys
import tempfile
import warnings

warnings.simplefilter('ignore')

import pandas as pd

from tdda.referencetest.checkpandas import PandasComparison

td = tempfile.mkdtemp()
problems = []
try:
    c = PandasComparison(verbose=False, tmp_dir=td)
    ref = pd.DataFrame({'a': [1, 2], 'b': [3.0, 4.0]})

    cases = [
        ('identical copy, check_extra_cols=["debug"]',
         ref.copy(), dict(check_extra_cols=['debug']), 'PASS'),
        ('copy + unrelated extra column "other", check_extra_cols=["debug"]',
         ref.assign(other=1), dict(check_extra_cols=['debug']), 'PASS'),
        # control: the listed column really is there -> must fail
        ('copy + extra column "debug", check_extra_cols=["debug"]',
         ref.assign(debug=1), dict(check_extra_cols=['debug']), 'FAIL'),
    ]
    for label, act, opts, expected in cases:
        try:
            r = c.check_dataframe(act, ref.copy(), **opts)
            got = 'PASS' if r.failures == 0 else 'FAIL'
        except Exception as e:
            got = 'raised %s: %s' % (type(e).__name__, e)
        print('%-70s expected %s, got %s' % (label, expected, got))
        if got != expected:
            problems.append('%s: expected %s, got %s' % (label, expected, got))
finally:
    shutil.rmtree(td, ignore_errors=True)

if problems:
    print('C05 VIOLATED')
    for p in problems:
        print('  ' + p)
    sys.exit(1)
print('C05 ok')
sys.exit(0)
