"""
C05 over the entry points: the check_extra_cols and type_matching options
that check_dataframe implements are not carried by the public assertion
methods:
  - assertDataFramesEqual(check_extra_cols=...)  -> TypeError (documented
    in its docstring, not in its signature)
  - assertDataFrameCorrect(..., check_extra_cols=False) -> swallowed by
    **kwargs and silently ignored: an unselected extra column still fails
  - assertOnDiskDataFrameCorrect(parquet, type_matching='medium' /
    check_extra_cols=False) -> forwarded as loader kwargs, ignored for
    parquet: comparison silently runs strict / with the extra-column check
  - the same call on CSV files -> TypeError from pandas.read_csv
"""
import os
import shutil
import sys
import tempfile
import warnings

warnings.simplefilter('ignore')

import pandas as pd

from tdda.referencetest.checkpandas import PandasComparison
from tdda.referencetest.referencetest import ReferenceTest

td = tempfile.mkdtemp()
tempfile.tempdir = td      # tdda's temporaries go under td
problems = []


def assert_fn(ok, msg):
    assert ok, msg


def outcome(fn, *args, **kw):
    try:
        fn(*args, **kw)
        return 'PASS'
    except AssertionError:
        return 'FAIL'
    except Exception as e:
        return 'raised %s: %s' % (type(e).__name__, str(e)[:90])


try:
    ReferenceTest.verbose = False
    rt = ReferenceTest(assert_fn)
    P = lambda name: os.path.join(td, name)

    ref = pd.DataFrame({'a': [1, 2], 'b': [3.0, 4.0]})
    extra = ref.assign(z=1)                    # one extra column
    nullable = ref.astype({'a': 'Int64'})      # Int64 vs int64: same at
                                               # 'medium', differs at strict
    ref.to_parquet(P('ref.parquet'))
    extra.to_parquet(P('extra.parquet'))
    nullable.to_parquet(P('nullable.parquet'))
    ref.to_csv(P('ref.csv'), index=False)
    extra.to_csv(P('extra.csv'), index=False)

    # what the comparison itself says for these options (the oracle)
    c = PandasComparison(verbose=False, tmp_dir=td)
    o1 = c.check_dataframe(extra.copy(), ref.copy(),
                           check_extra_cols=False).failures
    o2 = c.check_dataframe(nullable.copy(), ref.copy(),
                           type_matching='medium').failures
    print('check_dataframe: extra col + check_extra_cols=False ->',
          'PASS' if o1 == 0 else 'FAIL')
    print('check_dataframe: Int64 vs int64 + medium           ->',
          'PASS' if o2 == 0 else 'FAIL')
    assert o1 == 0 and o2 == 0

    cases = [
        ('assertDataFramesEqual(extra, ref, check_extra_cols=False)',
         rt.assertDataFramesEqual, (extra.copy(), ref.copy()),
         dict(check_extra_cols=False)),
        ('assertDataFrameCorrect(extra, ref.parquet, check_extra_cols=False)',
         rt.assertDataFrameCorrect, (extra.copy(), P('ref.parquet')),
         dict(check_extra_cols=False)),
        ('assertOnDiskDataFrameCorrect(extra.parquet, ref.parquet, '
         'check_extra_cols=False)',
         rt.assertOnDiskDataFrameCorrect,
         (P('extra.parquet'), P('ref.parquet')),
         dict(check_extra_cols=False)),
        ('assertOnDiskDataFrameCorrect(nullable.parquet, ref.parquet, '
         'type_matching="medium")',
         rt.assertOnDiskDataFrameCorrect,
         (P('nullable.parquet'), P('ref.parquet')),
         dict(type_matching='medium')),
        ('assertOnDiskDataFrameCorrect(extra.csv, ref.csv, '
         'check_extra_cols=False)',
         rt.assertOnDiskDataFrameCorrect, (P('extra.csv'), P('ref.csv')),
         dict(check_extra_cols=False)),
        ('assertOnDiskDataFrameCorrect(ref.csv, ref.csv, '
         'type_matching="medium")',
         rt.assertOnDiskDataFrameCorrect, (P('ref.csv'), P('ref.csv')),
         dict(type_matching='medium')),
    ]
    for label, fn, args, kw in cases:
        got = outcome(fn, *args, **kw)
        print('%s\n      expected PASS, got %s' % (label, got))
        if got != 'PASS':
            problems.append('%s: expected PASS, got %s' % (label, got))
finally:
    tempfile.tempdir = None
    shutil.rmtree(td, ignore_errors=True)

if problems:
    print('C05 VIOLATED')
    for p in problems:
        print('  ' + p)
    sys.exit(1)
print('C05 ok')
sys.exit(0)
