"""
C06 violation: a date column held as datetime.date objects (what
pd.read_parquet gives for a parquet DATE column, and what database drivers
return for DATE) verifies fine, but detection of a failing min/max
constraint raises TypeError instead of flagging the violating records.
"""
import datetime
import json
import os
import shutil
import sys
import tempfile

import pandas as pd

from tdda.constraints.pd.constraints import detect_df, verify_df, discover_df


def verdicts(v):
    return {f: {k: bool(r[k]) for k in r} for f, r in v.fields.items()}


def main():
    problems = []
    D = datetime.date
    tmp = tempfile.mkdtemp()
    try:
        ref = pd.DataFrame({'d': pd.Series([D(2020, 1, 3), D(2020, 1, 5)],
                                           dtype=object)})
        cons = json.loads(discover_df(ref).to_json())
        print('discovered:', cons['fields']['d'])

        df = pd.DataFrame({'d': pd.Series([D(2020, 1, 1), D(2020, 1, 4),
                                           D(2020, 1, 9)], dtype=object)})
        v = verify_df(df.copy(), cons, repair=False)
        print('verify :', verdicts(v)['d'])

        out = os.path.join(tmp, 'detect.csv')
        try:
            d = detect_df(df.copy(), cons, repair=False, per_constraint=True,
                          output_fields=[], outpath=out)
        except Exception as e:
            problems.append('verification reports %d failing constraints '
                            '(min, max) but detect_df raises %s: %s; '
                            'output file exists: %s'
                            % (v.failures, type(e).__name__, e,
                               os.path.exists(out)))
        else:
            print('detect :', verdicts(d)['d'])
            det = d.detected()
            print(det.to_string())
            if verdicts(d) != verdicts(v):
                problems.append('verdicts differ')
            got = (list(det.index), list(det['d_min_ok']),
                   list(det['d_max_ok']), list(det['n_failures']))
            want = ([0, 2], [False, True], [True, False], [1, 1])
            if got != want:
                problems.append('wrong records flagged: %s, expected %s'
                                % (got, want))
    finally:
        shutil.rmtree(tmp)

    if problems:
        print('C06 VIOLATED')
        for p in problems:
            print(' -', p)
        sys.exit(1)
    print('C06 ok')
    sys.exit(0)


if __name__ == '__main__':
    main()
