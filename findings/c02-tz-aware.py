"""
C02: min / max constraints on a timezone-aware datetime column.
verify_df raises TypeError ("can't compare offset-naive and offset-aware
datetimes") instead of giving verdicts; and the constraints that discover_df
writes for the very same frame are reported FAILED for min and max.
"""
import sys

import pandas as pd

from tdda.constraints import verify_df, discover_df


def run(df, fields):
    try:
        v = verify_df(df, {'fields': fields}, repair=False)
    except Exception as e:
        return 'raised %s: %s' % (type(e).__name__, e)
    return {k: bool(s) for k, s in v.fields['ts'].items()}


def main():
    df = pd.DataFrame({'ts': pd.to_datetime(['2020-01-01 09:00:00',
                                             '2020-06-01 17:30:00'],
                                            utc=True)})
    problems = []

    # 1. bounds well outside the data
    cons = {'ts': {'type': 'date', 'min': '2019-01-01', 'max': '2021-01-01',
                   'max_nulls': 0}}
    expected = {'type': True, 'min': True, 'max': True, 'max_nulls': True}
    got = run(df, cons)
    if got != expected:
        problems.append('constraints %r -> %s' % (cons['ts'], got))

    # 2. the constraints discovered from this frame, applied to this frame
    disc = discover_df(df).to_dict()['fields']
    got2 = run(df, disc)
    if not isinstance(got2, dict) or not all(got2.values()):
        problems.append('discovered constraints %r -> %s'
                        % (dict(disc['ts']), got2))

    if problems:
        print('C02 VIOLATED')
        print('column ts (dtype %s): %s' % (df['ts'].dtype,
                                            [str(x) for x in df['ts']]))
        for p in problems:
            print(' -', p)
        print('expected: every constraint reported satisfied (all values '
              'lie between the bounds)')
        sys.exit(1)
    print('C02 ok')
    sys.exit(0)


if __name__ == '__main__':
    main()
