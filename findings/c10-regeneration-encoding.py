"""
C10 witness: regeneration ignores the encoding that the comparison uses.

  A. assertTextFileCorrect(actual, ref, encoding='latin-1') in regeneration
     mode reads the actual file with the default (UTF-8) codec, so a perfectly
     good latin-1 file raises UnicodeDecodeError and no reference is written.
  B. the same for a '.pdf' text reference (no encoding given): comparison
     reads .pdf files as iso-8859-1 (utils.guess_encoding), regeneration
     reads them as UTF-8 and crashes.
  C. assertStringCorrect(non-ASCII string, 'x.pdf'): regeneration writes the
     reference in UTF-8, comparison reads it back as iso-8859-1, so the
     freshly regenerated reference fails its own assertion.
"""
import os
import shutil
import sys
import tempfile

from tdda.referencetest.referencetest import ReferenceTest


def make(refdir, regenerate):
    ReferenceTest.regenerate.clear()
    if regenerate:
        ReferenceTest.set_regeneration()         # == -W / --write-all

    def assert_fn(ok, msg):
        if not ok:
            raise AssertionError(msg)

    r = ReferenceTest(assert_fn)
    r.set_data_location(refdir)
    return r


def roundtrip(label, refdir, refname, call):
    """regenerate, then re-check in normal mode; returns a problem or None"""
    refpath = os.path.join(refdir, refname)
    try:
        call(make(refdir, True))
    except Exception as e:
        return ('%s: regeneration raised %s (%s); reference written: %s'
                % (label, type(e).__name__, e, os.path.exists(refpath)))
    try:
        call(make(refdir, False))
    except AssertionError as e:
        first = str(e).strip().splitlines()[0]
        return ('%s: reference was regenerated, but the same assertion then '
                'fails in normal mode: %s' % (label, first))
    return None


def main():
    top = tempfile.mkdtemp(prefix='c10v1-')
    saved = (dict(ReferenceTest.regenerate), ReferenceTest.verbose,
             ReferenceTest.tmp_dir)
    problems = []
    try:
        refdir = os.path.join(top, 'ref')
        os.mkdir(refdir)
        ReferenceTest.set_defaults(verbose=False, tmp_dir=top)

        # A: latin-1 text file, encoding passed to the assertion
        actual_a = os.path.join(top, 'report.txt')
        with open(actual_a, 'wb') as f:
            f.write('Café Zürich\r\nno final newline'
                    .encode('latin-1'))
        problems.append(roundtrip(
            'A assertTextFileCorrect(encoding="latin-1")', refdir,
            'report.txt',
            lambda r: r.assertTextFileCorrect(actual_a, 'report.txt',
                                              encoding='latin-1')))

        # B: pdf compared as (iso-8859-1) text, the library's own convention
        actual_b = os.path.join(top, 'doc.pdf')
        with open(actual_b, 'wb') as f:
            f.write(b'%PDF-1.4\n%\xe2\xe3\xcf\xd3\n1 0 obj\n<< >>\nendobj\n')
        problems.append(roundtrip(
            'B assertTextFileCorrect(doc.pdf)', refdir, 'doc.pdf',
            lambda r: r.assertTextFileCorrect(actual_b, 'doc.pdf')))

        # C: in-memory string against a .pdf reference
        problems.append(roundtrip(
            'C assertStringCorrect(non-ASCII string, "title.pdf")', refdir,
            'title.pdf',
            lambda r: r.assertStringCorrect('Café Zürich\n',
                                            'title.pdf')))
    finally:
        ReferenceTest.regenerate.clear()
        ReferenceTest.regenerate.update(saved[0])
        ReferenceTest.verbose = saved[1]
        ReferenceTest.tmp_dir = saved[2]
        shutil.rmtree(top, ignore_errors=True)

    problems = [p for p in problems if p]
    if problems:
        print('C10 VIOLATED')
        for p in problems:
            print('  -', p)
        return 1
    print('C10 ok')
    return 0


if __name__ == '__main__':
    sys.exit(main())
