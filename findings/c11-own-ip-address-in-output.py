"""
C11 demo 1: output that mentions this machine's own IP address makes
'tdda gentest' crash (AttributeError: no attribute 'ip'), so no usable
test script is produced.
"""
import os
import shutil
import socket
import subprocess
import sys
import tempfile

GEN = ('import sys; from tdda.referencetest.gentest import gentest_wrapper; '
       'gentest_wrapper(sys.argv[1:])')

ENV = dict(os.environ)


def main():
    try:
        ip = socket.gethostbyname(socket.gethostname())
    except Exception:
        print('C11 ok (host name does not resolve to an IP address here, '
              'so the ip branch cannot be exercised)')
        return 0
    d = tempfile.mkdtemp(prefix='c11v1_')
    scratch = os.path.join(d, '_tmp')
    os.makedirs(scratch)
    ENV['TMPDIR'] = scratch  # keep tdda's own temp files inside d
    try:
        command = "echo 'Serving HTTP on %s port 8000'" % ip
        g = subprocess.run([sys.executable, '-c', GEN, command, 'test_srv.py'],
                           cwd=d, capture_output=True, text=True, env=ENV)
        script = os.path.join(d, 'test_srv.py')
        problems = []
        if g.returncode != 0:
            problems.append('generation failed with exit status %d:\n%s'
                            % (g.returncode, g.stderr[-900:]))
        if not os.path.exists(script):
            problems.append('no test script was written')
        else:
            try:
                compile(open(script).read(), script, 'exec')
            except SyntaxError as e:
                problems.append('script does not compile: %r' % e)
            t = subprocess.run([sys.executable, script], cwd=d,
                               capture_output=True, text=True, env=ENV)
            if t.returncode != 0:
                problems.append('generated test fails:\n%s' % t.stderr[-900:])
        if problems:
            print('C11 VIOLATED')
            print('command: %s   (deterministic; prints this host\'s IP %s)'
                  % (command, ip))
            for p in problems:
                print(' - ' + p)
            return 1
        print('C11 ok')
        return 0
    finally:
        shutil.rmtree(d, ignore_errors=True)


if __name__ == '__main__':
    sys.exit(main())
