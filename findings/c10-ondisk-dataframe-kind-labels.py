"""
C10 witness: the on-disk DataFrame assertions do not regenerate by the kind
label they carry.

  * assertCSVFileCorrect passes the literal kind='kind' down instead of its
    kind argument, so `--write csv` does NOT regenerate
    assertCSVFileCorrect(actual, 'res.csv')  (default kind 'csv'), while
    `--write kind` regenerates every assertCSVFileCorrect whatever its label.
  * assertOnDiskDataFrame(s)Correct silently rename kind 'parquet' (their
    default label) to 'csv', so `--write parquet` regenerates nothing and
    `--write csv` rewrites references labelled 'parquet'.
"""
import os
import shutil
import sys
import tempfile

import pandas as pd

from tdda.referencetest.referencetest import ReferenceTest
from tdda.referencetest.referencetestcase import (ReferenceTestCase,
                                                  _set_flags_from_argv)


class T(ReferenceTestCase):
    def runTest(self):
        pass


def run(argv, refdir, refname, call):
    """
    Parse argv as ReferenceTestCase.main() would, run one assertion against
    a missing reference, and say whether the reference got written.
    """
    ReferenceTest.regenerate.clear()
    _set_flags_from_argv(['tests.py'] + argv)
    refpath = os.path.join(refdir, refname)
    if os.path.exists(refpath):
        os.remove(refpath)
    t = T()
    t.set_data_location(refdir)
    outcome = 'returned normally'
    try:
        call(t)
    except Exception as e:
        outcome = 'raised %s' % type(e).__name__
    return os.path.exists(refpath), outcome


def main():
    top = tempfile.mkdtemp(prefix='c10v2-')
    saved = (dict(ReferenceTest.regenerate), ReferenceTestCase.verbose,
             tempfile.tempdir)
    tempfile.tempdir = top      # keep any failure temporaries in our dir
    problems = []
    try:
        refdir = os.path.join(top, 'ref')
        os.mkdir(refdir)
        ReferenceTestCase.set_defaults(verbose=False)
        df = pd.DataFrame({'a': [1, 2, 3], 'b': [0.5, 1.5, 2.5]})
        actual_csv = os.path.join(top, 'actual.csv')
        actual_pq = os.path.join(top, 'actual.parquet')
        df.to_csv(actual_csv, index=False)
        df.to_parquet(actual_pq)

        cases = [
            # argv, reference, label of the assertion, must be written?, call
            (['--write', 'csv'], 'res.csv', "csv (default)", True,
             lambda t: t.assertCSVFileCorrect(actual_csv, 'res.csv')),
            (['-w', 'mycsvs'], 'res.csv', "mycsvs", True,
             lambda t: t.assertCSVFileCorrect(actual_csv, 'res.csv',
                                              kind='mycsvs')),
            (['--write', 'kind'], 'res.csv', "graph", False,
             lambda t: t.assertCSVFileCorrect(actual_csv, 'res.csv',
                                              kind='graph')),
            (['--write', 'parquet'], 'res.parquet', "parquet (default)", True,
             lambda t: t.assertOnDiskDataFrameCorrect(actual_pq,
                                                      'res.parquet')),
            (['--write', 'csv'], 'res.parquet', "parquet (default)", False,
             lambda t: t.assertOnDiskDataFrameCorrect(actual_pq,
                                                      'res.parquet')),
            (['--w', 'parquet'], 'res.parquet', "parquet", True,
             lambda t: t.assertOnDiskDataFramesCorrect([actual_pq],
                                                       ['res.parquet'],
                                                       kind='parquet')),
            # controls that behave correctly
            (['--write', 'table'], 'res.txt', "table", True,
             lambda t: t.assertStringCorrect('x\n', 'res.txt', kind='table')),
            (['--write', 'table'], 'res.txt', "graph", False,
             lambda t: t.assertStringCorrect('x\n', 'res.txt', kind='graph')),
        ]
        for argv, refname, label, expected, call in cases:
            written, outcome = run(argv, refdir, refname, call)
            if written != expected:
                problems.append(
                    'argv %s, assertion labelled kind=%s on %s: reference '
                    '%s (assertion %s) but it %s have been regenerated'
                    % (' '.join(argv), label, refname,
                       'WRITTEN' if written else 'NOT written', outcome,
                       'should' if expected else 'should NOT'))
    finally:
        ReferenceTest.regenerate.clear()
        ReferenceTest.regenerate.update(saved[0])
        ReferenceTestCase.verbose = saved[1]
        tempfile.tempdir = saved[2]
        shutil.rmtree(top, ignore_errors=True)

    if problems:
        print('C10 VIOLATED')
        for p in problems:
            print('  -', p)
        return 1
    print('C10 ok')
    return 0


if __name__ == '__main__':
    sys.exit(main())
