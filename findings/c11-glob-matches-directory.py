"""
C11 demo 3: output files named by a glob ('out/*') where the command also
creates a subdirectory under out/.  glob.glob returns the subdirectory,
add_globs() puts it among the reference files after directories have
already been expanded, and write_script() then calls FileType() on it:
IsADirectoryError.  Generation dies with a traceback, leaving a truncated
test script (no tests for the files, no main block).
"""
import os
import shutil
import subprocess
import sys
import tempfile

GEN = ('import sys; from tdda.referencetest.gentest import gentest_wrapper; '
       'gentest_wrapper(sys.argv[1:])')

COMMAND = ('mkdir -p out/logs; echo total,3 > out/summary.csv; '
           'echo started > out/logs/run.log')

ENV = dict(os.environ)


def main():
    d = tempfile.mkdtemp(prefix='c11v3_')
    scratch = os.path.join(d, '_tmp')
    os.makedirs(scratch)
    ENV['TMPDIR'] = scratch  # keep tdda's own temp files inside d
    try:
        bad = []
        for n in ('1', '2', '3'):
            wd = os.path.join(d, 'n' + n)
            os.makedirs(wd)
            g = subprocess.run([sys.executable, '-c', GEN, '-n', n, COMMAND,
                                'test_report.py', 'out/*'],
                               cwd=wd, capture_output=True, text=True, env=ENV)
            script = os.path.join(wd, 'test_report.py')
            problems = []
            if g.returncode != 0:
                tail = g.stderr.strip().splitlines()[-1:] or ['']
                problems.append('generation failed with exit status %d: %s'
                                % (g.returncode, tail[0]))
            if not os.path.exists(script):
                problems.append('no test script written')
            else:
                text = open(script).read()
                try:
                    compile(text, script, 'exec')
                except SyntaxError as e:
                    problems.append('script does not compile: %r' % e)
                if 'summary_csv' not in text:
                    problems.append('script has no test for out/summary.csv')
                if '__main__' not in text:
                    problems.append('script is truncated (no main block)')
                t = subprocess.run([sys.executable, script], cwd=wd,
                                   capture_output=True, text=True, env=ENV)
                if t.returncode != 0:
                    problems.append('generated test fails: %s'
                                    % t.stderr[-400:])
            if problems:
                bad.append((n, problems))
        if bad:
            print('C11 VIOLATED')
            print("command: %s\nreference files: 'out/*'" % COMMAND)
            for n, problems in bad:
                print('* iterations=%s' % n)
                for p in problems:
                    print('   - ' + p)
            return 1
        print('C11 ok')
        return 0
    finally:
        shutil.rmtree(d, ignore_errors=True)


if __name__ == '__main__':
    sys.exit(main())
