"""
C17: constraints discovered by 'tdda discover' from a parquet file with a
timezone-aware timestamp column do not verify against that same file:
'tdda verify' reports the min and max constraints of the column as failing.
"""
import os
import re
import shutil
import subprocess
import sys
import tempfile

import pandas as pd

from tdda.constraints.pd.constraints import discover_df, verify_df, load_df


def cli(args, cwd):
    return subprocess.run([sys.executable, '-m', 'tdda.constraints.console']
                          + args, cwd=cwd, capture_output=True, text=True)


def main():
    tmp = tempfile.mkdtemp()
    try:
        path = os.path.join(tmp, 'events.parquet')
        tdda = os.path.join(tmp, 'events.tdda')
        when = pd.to_datetime(['2020-01-01 00:00:01', '2021-05-05 10:00:00',
                               '2020-07-01 12:30:00']).tz_localize('UTC')
        pd.DataFrame({'id': [1, 2, 3], 'when': when}).to_parquet(path)

        r1 = cli(['discover', path, tdda], tmp)
        r2 = cli(['verify', path, tdda], tmp)
        m = re.search(r'Constraints failing: (\d+)', r2.stdout)
        cli_failures = int(m.group(1)) if m else None

        # same through the library
        df = load_df(path)
        c = discover_df(df)
        libtdda = os.path.join(tmp, 'lib.tdda')
        with open(libtdda, 'w') as f:
            f.write(c.to_json())
        lib_failures = verify_df(load_df(path), libtdda).failures

        if r1.returncode != 0 or cli_failures != 0 or lib_failures != 0:
            print('C17 VIOLATED')
            print('  column dtype: %s' % df['when'].dtype)
            print('  discovered: min=%r max=%r'
                  % (c['when']['min'].to_dict_value(),
                     c['when']['max'].to_dict_value()))
            print('  tdda discover status %d; tdda verify of the same file: '
                  '%s constraints failing (library: %s)'
                  % (r1.returncode, cli_failures, lib_failures))
            for line in r2.stdout.splitlines():
                if line.startswith('when:'):
                    print('  ' + line)
            return 1
        print('C17 ok')
        return 0
    finally:
        shutil.rmtree(tmp, ignore_errors=True)


if __name__ == '__main__':
    sys.exit(main())
