import os
import shutil
import sys
import tempfile

from tdda.referencetest.referencetest import ReferenceTest


def verdicts(tmp, actual_text, ref_text, **opts):
    """Return {'string-vs-file': bool, 'file-vs-file': bool, 'list-of-files': bool}
    (True = the check passed) for the three public text entry points."""
    ReferenceTest.set_defaults(verbose=False, tmp_dir=tmp)
    ref = os.path.join(tmp, 'ref.txt')
    act = os.path.join(tmp, 'actual.txt')
    with open(ref, 'w', encoding='utf-8') as f:
        f.write(ref_text)
    with open(act, 'w', encoding='utf-8') as f:
        f.write(actual_text)
    out = {}
    for name, call in [
        ('string-vs-file',
         lambda rt: rt.assertStringCorrect(actual_text, ref, **opts)),
        ('file-vs-file',
         lambda rt: rt.assertTextFileCorrect(act, ref, **opts)),
        ('list-of-files',
         lambda rt: rt.assertTextFilesCorrect([act], [ref], **opts)),
    ]:
        seen = []
        rt = ReferenceTest(lambda ok, msg, seen=seen: seen.append(bool(ok)))
        call(rt)
        out[name] = seen[-1]
    return out


def main():
    tmp = tempfile.mkdtemp(prefix='c04v2_')
    try:
        bad = []
        # Each pattern matches only a PREFIX (or only a SUFFIX) of the line;
        # the rest of the line differs in text no pattern matches, so C04
        # says the check must fail ("any difference not excused by an
        # option fails").
        cases = [
            # ignore a leading date stamp; the payload differs
            ('2024-01-01 result: 5 rows\n',
             '2024-02-02 result: 7000 rows, 3 errors\n',
             [r'^\d{4}-\d\d-\d\d']),
            # ignore a leading log level; the message differs
            ('INFO all good\n', 'INFO disk failure\n', [r'^[A-Z]+ ']),
            # ignore a trailing count; the label differs
            ('total: 5\n', 'errors: 7\n', [r' \d$']),
        ]
        for actual, ref, pats in cases:
            v = verdicts(tmp, actual, ref, ignore_patterns=pats)
            for entry, passed in v.items():
                if passed:
                    bad.append('%s: actual %r vs reference %r with '
                               'ignore_patterns=%r PASSES, should fail'
                               % (entry, actual, ref, pats))
        # control: the same patterns without the anchor behave correctly
        ctl = verdicts(tmp, 'INFO all good\n', 'INFO disk failure\n',
                       ignore_patterns=[r'[A-Z]+ '])
        print('control (unanchored [A-Z]+ ):', ctl)
        if bad:
            print('C04 VIOLATED')
            for b in bad:
                print('  ' + b)
            return 1
        print('C04 ok')
        return 0
    finally:
        shutil.rmtree(tmp, ignore_errors=True)


if __name__ == '__main__':
    sys.exit(main())
