"""
C02: a date-valued min / max bound with fractional seconds is read with the
digits after the point taken as a number of MICROseconds, whatever their
count: "00:00:00.5" becomes 00:00:00.000005 and "12:00:00.250" becomes
12:00:00.000250.  Verdicts for such bounds are wrong in both directions.
"""
import datetime
import sys

import pandas as pd

from tdda.constraints import verify_df


def verdicts(df, constraints):
    v = verify_df(df, {'fields': constraints}, repair=False)
    return {k: bool(s) for k, s in v.fields['t'].items()}, v.passes, v.failures


def main():
    df = pd.DataFrame({'t': pd.to_datetime(['2020-01-01 00:00:00.200',
                                            '2020-01-01 00:00:00.300'])})
    problems = []

    # every value (0.2 s, 0.3 s) is BELOW the minimum 0.5 s -> min must fail
    got, p, f = verdicts(df, {'t': {'type': 'date',
                                    'min': '2020-01-01 00:00:00.500'}})
    if got['min'] is not False:
        problems.append('min "2020-01-01 00:00:00.500" on values .200/.300: '
                        'reported %r (passes=%d failures=%d), expected failed'
                        % (got, p, f))

    # every value is BELOW the maximum 0.4 s -> max must pass
    got, p, f = verdicts(df, {'t': {'type': 'date',
                                    'max': '2020-01-01 00:00:00.4'}})
    if got['max'] is not True:
        problems.append('max "2020-01-01 00:00:00.4" on values .200/.300: '
                        'reported %r (passes=%d failures=%d), expected '
                        'satisfied' % (got, p, f))

    # control: six digits, the only form that is read correctly
    gotc, _, _ = verdicts(df, {'t': {'type': 'date',
                                     'min': '2020-01-01 00:00:00.500000',
                                     'max': '2020-01-01 00:00:00.400000'}})

    if problems:
        from tdda.constraints.base import get_date
        print('C02 VIOLATED')
        for pr in problems:
            print(' -', pr)
        print('get_date("2020-01-01 00:00:00.500") ->',
              repr(get_date('2020-01-01 00:00:00.500')),
              '; expected', repr(datetime.datetime(2020, 1, 1, 0, 0, 0,
                                                   500000)))
        print('control with 6-digit fractions (.500000 / .400000):', gotc)
        sys.exit(1)
    print('C02 ok')
    sys.exit(0)


if __name__ == '__main__':
    main()
