"""
C07: no_duplicates is never discovered for date or bool fields, although they
are non-real fields with more than one non-null value, all distinct.
Shown for a DataFrame and for a SQLite table.
"""
import os
import shutil
import sqlite3
import sys
import tempfile
import warnings

import pandas as pd

warnings.simplefilter('ignore')
from tdda.constraints import discover_df
from tdda.constraints.db.drivers import database_connection
from tdda.constraints.db.constraints import discover_db_table

problems = []

df = pd.DataFrame({
    'd': pd.to_datetime(['2020-01-01', '2021-06-30', '2022-12-31']),
    'b': [True, False, None],
    'i': [1, 2, 3],          # control: int gets no_duplicates
})
df['b'] = df['b'].astype('boolean')
fields = discover_df(df).to_dict()['fields']
assert fields['i'].get('no_duplicates') is True, 'control failed'
for col in ('d', 'b'):
    if fields[col].get('no_duplicates') is not True:
        problems.append('DataFrame column %s (%s, values all distinct): '
                        'no no_duplicates constraint: %r'
                        % (col, fields[col]['type'], dict(fields[col])))

tmp = tempfile.mkdtemp()
try:
    path = os.path.join(tmp, 'x.db')
    conn = sqlite3.connect(path)
    conn.execute('CREATE TABLE t (d datetime, b boolean, i integer)')
    conn.executemany('INSERT INTO t VALUES (?, ?, ?)',
                     [('2020-01-01 00:00:00', True, 1),
                      ('2021-06-30 00:00:00', False, 2),
                      ('2022-12-31 00:00:00', None, 3)])
    conn.commit()
    conn.close()
    db = database_connection(dbtype='sqlite', db=path)
    dbfields = discover_db_table('sqlite', db, 't').to_dict()['fields']
    db.connection.close()
    assert dbfields['i'].get('no_duplicates') is True, 'control failed'
    for col in ('d', 'b'):
        if dbfields[col].get('no_duplicates') is not True:
            problems.append('SQLite column %s (%s, values all distinct): '
                            'no no_duplicates constraint: %r'
                            % (col, dbfields[col]['type'],
                               dict(dbfields[col])))
finally:
    shutil.rmtree(tmp)

if problems:
    print('C07 VIOLATED')
    for p in problems:
        print('  ' + p)
    sys.exit(1)
print('C07 ok')
sys.exit(0)
