"""
C11 demo 2: a test script name that lies in another directory than the
working directory (relative 'tests/test_hello.py', or an absolute path).
Generation succeeds and puts the reference files in <cwd>/ref/hello, but the
generated script derives both its cwd and its refdir from its own location,
so it looks for <cwd>/tests/ref/hello/STDOUT (missing) and runs the command
in the wrong directory: it fails straight after generation.
"""
import os
import shutil
import subprocess
import sys
import tempfile

GEN = ('import sys; from tdda.referencetest.gentest import gentest_wrapper; '
       'gentest_wrapper(sys.argv[1:])')

ENV = dict(os.environ)


def attempt(d, script_arg, script_path):
    g = subprocess.run([sys.executable, '-c', GEN,
                        'echo hello; echo done > out.txt', script_arg,
                        'out.txt'],
                       cwd=d, capture_output=True, text=True, env=ENV)
    problems = []
    if g.returncode != 0:
        problems.append('generation failed (%d): %s'
                        % (g.returncode, g.stderr[-600:]))
    if not os.path.exists(script_path):
        problems.append('no script at %s' % script_path)
        return problems
    try:
        compile(open(script_path).read(), script_path, 'exec')
    except SyntaxError as e:
        problems.append('script does not compile: %r' % e)
    t = subprocess.run([sys.executable, script_path], cwd=d,
                       capture_output=True, text=True, env=ENV)
    if t.returncode != 0:
        lines = [x for x in t.stderr.splitlines()
                 if 'not found' in x or x.startswith(('FAIL', 'ERROR', 'Ran',
                                                      'FAILED'))]
        problems.append('generated test fails when run straight afterwards:'
                        '\n      ' + '\n      '.join(lines[:12]))
    return problems


def main():
    top = tempfile.mkdtemp(prefix='c11v2_')
    scratch = os.path.join(top, '_tmp')
    os.makedirs(scratch)
    ENV['TMPDIR'] = scratch  # keep tdda's own temp files inside top
    try:
        bad = []
        # relative script name in a subdirectory
        d1 = os.path.join(top, 'proj1')
        os.makedirs(os.path.join(d1, 'tests'))
        p = attempt(d1, os.path.join('tests', 'test_hello.py'),
                    os.path.join(d1, 'tests', 'test_hello.py'))
        if p:
            bad.append(('relative script name tests/test_hello.py', p,
                        sorted(os.listdir(os.path.join(d1, 'ref', 'hello')))
                        if os.path.isdir(os.path.join(d1, 'ref', 'hello'))
                        else None))
        # absolute script name in another directory
        d2 = os.path.join(top, 'proj2')
        other = os.path.join(top, 'elsewhere')
        os.makedirs(d2)
        os.makedirs(other)
        sp = os.path.join(other, 'test_hello.py')
        p = attempt(d2, sp, sp)
        if p:
            bad.append(('absolute script name %s' % sp, p,
                        sorted(os.listdir(os.path.join(d2, 'ref', 'hello')))
                        if os.path.isdir(os.path.join(d2, 'ref', 'hello'))
                        else None))
        if bad:
            print('C11 VIOLATED')
            for what, problems, refs in bad:
                print('* %s (reference files were written to <cwd>/ref/hello:'
                      ' %s)' % (what, refs))
                for x in problems:
                    print('   - ' + x)
            return 1
        print('C11 ok')
        return 0
    finally:
        shutil.rmtree(top, ignore_errors=True)


if __name__ == '__main__':
    sys.exit(main())
