"""
C06 violation: a failing 'sign' constraint on a non-numeric column produces
no per-record flag at all (PandasConstraintDetector.detect_sign_constraint
assigns a local variable instead of writing the flag column).
"""
import os
import shutil
import sys
import tempfile

import pandas as pd

from tdda.constraints.pd.constraints import detect_df, verify_df


def verdicts(v):
    return {f: {k: bool(r[k]) for k in r} for f, r in v.fields.items()}


def main():
    problems = []
    tmp = tempfile.mkdtemp()
    try:
        # a numeric field that arrived as text (one dirty value), as happens
        # whenever a CSV column contains a stray non-numeric token
        df = pd.DataFrame({'amount': pd.Series(['12.5', '7', 'n/a', None],
                                               dtype=object)})

        # (a) constraints as discovered from a clean numeric column
        cons = {'fields': {'amount': {'type': 'real', 'min': 0.5,
                                      'max': 100.0, 'sign': 'positive'}}}
        v = verify_df(df.copy(), cons, repair=False)
        d = detect_df(df.copy(), cons, repair=False, per_constraint=True,
                      output_fields=[])
        if verdicts(v) != verdicts(d):
            problems.append('verdicts differ: %s / %s'
                            % (verdicts(v), verdicts(d)))
        failing = sorted(k for k, ok in verdicts(d)['amount'].items()
                         if not ok)
        det = d.detected()
        flagcols = sorted(c for c in det.columns if c.endswith('_ok'))
        print('failing constraints on amount:', failing)
        print('flag columns produced:       ', flagcols)
        if 'sign' in failing and 'amount_sign_ok' not in flagcols:
            problems.append("constraint 'sign' failed but there is no "
                            "amount_sign_ok flag column; n_failures=%s "
                            "counts only %d of the %d failing constraints"
                            % (list(det['n_failures']), len(flagcols),
                               len(failing)))

        # (b) the sign constraint alone: detection reports a failing
        #     constraint, zero failing records, and writes an empty file
        cons = {'fields': {'amount': {'type': ['real', 'string'],
                                      'sign': 'positive'}}}
        out = os.path.join(tmp, 'detect.csv')
        v = verify_df(df.copy(), cons, repair=False)
        d = detect_df(df.copy(), cons, repair=False, per_constraint=True,
                      output_fields=[], outpath=out)
        nfail = d.detection.n_failing_records if d.detection else None
        npass = d.detection.n_passing_records if d.detection else None
        rows = (len(pd.read_csv(out)) if os.path.exists(out) else None)
        print('sign only: verify failures=%d detect failures=%d '
              'records passing=%s failing=%s rows in output file=%s'
              % (v.failures, d.failures, npass, nfail, rows))
        if d.failures > 0 and nfail == 0:
            problems.append("the sign constraint fails (3 non-null text "
                            "values are not positive numbers) yet 0 records "
                            "are flagged; all %s records are reported as "
                            "passing and the output file has %s records"
                            % (npass, rows))
    finally:
        shutil.rmtree(tmp)

    if problems:
        print('C06 VIOLATED')
        for p in problems:
            print(' -', p)
        sys.exit(1)
    print('C06 ok')
    sys.exit(0)


if __name__ == '__main__':
    main()
