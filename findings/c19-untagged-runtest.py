"""
C19 demo: TaggedTestLoader.getTestCaseNames returns [] for a class with no
tagged tests, and unittest's loadTestsFromTestCase then falls back to the
class's runTest method.  So an untagged runTest is executed under --tagged
(even one that is NOT executed in an ordinary run), and the class is named
by --istagged although it contains no tagged test.
"""
import os
import re
import shutil
import subprocess
import sys
import tempfile

MODULE = '''
from tdda.referencetest import ReferenceTestCase, tag

class TestA(ReferenceTestCase):
    @tag
    def test_a1(self): print('RAN TestA.test_a1')
    def test_a2(self): print('RAN TestA.test_a2')

class TestSingle(ReferenceTestCase):      # classic single-test TestCase
    def runTest(self): print('RAN TestSingle.runTest')

class TestBoth(ReferenceTestCase):        # test_* methods plus a runTest
    def test_x(self): print('RAN TestBoth.test_x')
    def runTest(self): print('RAN TestBoth.runTest')

if __name__ == '__main__':
    ReferenceTestCase.main()
'''


def run(tmp, args):
    p = subprocess.run([sys.executable, os.path.join(tmp, 'mytests.py')] + args,
                       cwd=tmp, stdout=subprocess.PIPE,
                       stderr=subprocess.STDOUT, text=True)
    ran = sorted(re.findall(r'RAN (\S+)', p.stdout))
    listed = sorted(re.findall(r'^__main__\.(\w+)$', p.stdout, re.M))
    return ran, listed, p.stdout


def main():
    tmp = tempfile.mkdtemp(prefix='c19v3')
    problems = []
    try:
        with open(os.path.join(tmp, 'mytests.py'), 'w') as f:
            f.write(MODULE)
        ran_all, _, _ = run(tmp, [])
        print('no option        executed=%s' % ran_all)

        ran, _, _ = run(tmp, ['--tagged'])
        expected = ['TestA.test_a1']
        print('--tagged         executed=%s expected=%s' % (ran, expected))
        if ran != expected:
            problems.append('--tagged executed %s, expected exactly %s '
                            '(not executed without the option: %s)'
                            % (ran, expected,
                               [t for t in ran if t not in ran_all]))

        ran, listed, _ = run(tmp, ['--istagged'])
        expected = ['TestA']
        print('--istagged       executed=%s listed=%s expected listed=%s'
              % (ran, listed, expected))
        if ran or listed != expected:
            problems.append('--istagged executed %s and named %s, expected '
                            'none executed and exactly %s named'
                            % (ran, listed, expected))

        ran, _, _ = run(tmp, ['-1', 'TestSingle'])
        print('-1 TestSingle    executed=%s expected=[]' % ran)
        if ran:
            problems.append('-1 TestSingle executed %s, expected none' % ran)
    finally:
        shutil.rmtree(tmp, ignore_errors=True)
    if problems:
        print('C19 VIOLATED')
        for p in problems:
            print('  ' + p)
        sys.exit(1)
    print('C19 ok')
    sys.exit(0)


if __name__ == '__main__':
    main()
