"""
C19: under --tagged the tests executed are exactly the tagged ones; --istagged names exactly the classes with tagged
tests.  An old-style single-test class (a runTest method, no test* methods) that carries NO tag was run under --tagged
and named by --istagged: TaggedTestLoader filters the test* names, and when none are left unittest falls back to
runTest().
"""
import os, shutil, subprocess, sys, tempfile

MOD = '''
from tdda.referencetest import ReferenceTestCase, tag
class Old(ReferenceTestCase):
    def runTest(self): print('RAN Old.runTest')
class New(ReferenceTestCase):
    @tag
    def test_a(self): print('RAN New.test_a')
    def test_b(self): print('RAN New.test_b')
if __name__ == '__main__':
    ReferenceTestCase.main()
'''
d = tempfile.mkdtemp()
try:
    with open(os.path.join(d, 'mod.py'), 'w') as f:
        f.write(MOD)
    env = dict(os.environ)
    bad = []
    p = subprocess.run([sys.executable, 'mod.py', '--tagged'], cwd=d, env=env, capture_output=True, text=True)
    if 'RAN Old.runTest' in p.stdout + p.stderr:
        bad.append('--tagged executed the untagged Old.runTest')
    p = subprocess.run([sys.executable, 'mod.py', '--istagged'], cwd=d, env=env, capture_output=True, text=True)
    if '__main__.Old' in p.stdout + p.stderr:
        bad.append('--istagged names class Old, which has no tagged test')
    if bad:
        print('C19 VIOLATED: ' + '; '.join(bad))
        sys.exit(1)
    print('C19 ok')
finally:
    shutil.rmtree(d, ignore_errors=True)
