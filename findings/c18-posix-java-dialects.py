"""
C18: coverage figures are wrong (or cannot be computed at all) when an
output dialect other than perl/portable/grep is requested.

Extractor.coverage() / incremental_coverage() / full_incremental_coverage()
feed self.results.rex -- which extract() has already rewritten into the
requested OUTPUT dialect (POSIX [[:upper:]], Java \\p{Upper}) -- to Python's
re module, which does not understand that syntax.
"""
import re
import sys
import warnings

from tdda.rexpy.rexpy import Extractor

warnings.simplefilter('ignore')      # FutureWarning: Possible nested set

EXAMPLES = ['AB-123', 'CD-456', 'EF-789', 'EF-789', 'hello', 'world']
N = len(EXAMPLES)
N_UNIQ = len(set(EXAMPLES))

# What the POSIX / Java classes that appear in the output mean, in Python
TRANSLATE = [
    ('[[:upper:]]', '[A-Z]'), ('[[:lower:]]', '[a-z]'),
    ('[[:alpha:]]', '[A-Za-z]'), ('[[:digit:]]', '[0-9]'),
    ('[[:xdigit:]]', '[0-9A-Fa-f]'), ('[[:space:]]', r'\s'),
    (r'\p{Upper}', '[A-Z]'), (r'\p{Lower}', '[a-z]'),
    (r'\p{Alpha}', '[A-Za-z]'), (r'\p{Digit}', '[0-9]'),
    (r'\p{XDigit}', '[0-9A-Fa-f]'), (r'\p{Space}', r'\s'),
]


def true_counts(rex, dedup):
    """Number of examples each expression really matches."""
    out = []
    pool = sorted(set(EXAMPLES)) if dedup else EXAMPLES
    for r in rex:
        for (a, b) in TRANSLATE:
            r = r.replace(a, b)
        out.append(sum(1 for s in pool if re.fullmatch(r, s)))
    return out


problems = []
for dialect in ('posix', 'java'):
    x = Extractor(EXAMPLES, dialect=dialect)
    rex = x.results.rex
    print('dialect=%s  expressions: %s' % (dialect, rex))
    for dedup in (False, True):
        total = N_UNIQ if dedup else N
        truth = true_counts(rex, dedup)
        try:
            cov = x.coverage(dedup=dedup)
            inc = list(x.incremental_coverage(dedup=dedup).items())
        except re.error as e:
            problems.append('dialect=%s dedup=%s: coverage raised re.error(%s); '
                            'true counts are %s' % (dialect, dedup, e, truth))
            continue
        if cov != truth:
            problems.append('dialect=%s dedup=%s: coverage() = %s but the '
                            'expressions really match %s of the examples'
                            % (dialect, dedup, cov, truth))
        s = sum(v for (k, v) in inc)
        if s != total or x.n_examples(dedup=dedup) != total:
            problems.append('dialect=%s dedup=%s: incremental coverage %s sums '
                            'to %d, not to the %d examples supplied'
                            % (dialect, dedup, inc, s, total))

# control: same input in the perl dialect is right
x = Extractor(EXAMPLES, dialect='perl')
print('dialect=perl   expressions: %s coverage %s incremental %s'
      % (x.results.rex, x.coverage(), list(x.incremental_coverage().values())))

if problems:
    print('C18 VIOLATED')
    for p in problems:
        print('  -', p)
    sys.exit(1)
print('C18 ok')
sys.exit(0)
