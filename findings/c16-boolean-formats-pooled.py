"""C16: boolean spellings are per column in CSVW ("format": "true|false"),
but to_pandas_read_csv_args pools them into one global true_values /
false_values pair.  When two boolean columns use spellings that clash
(one column's 'true' token is another column's 'false' token) the later
column's declaration is dropped with a printed remark and its values are read
with the first column's meaning, i.e. inverted -- silently wrong data."""
import io, json, os, shutil, sys, tempfile, contextlib
import pandas as pd
from tdda.serial import csv2pandas

# 'opted_in'  : Y = true,  N = false
# 'no_contact': the source system stores "may contact?" and the CSVW author
#               declares the inverse flag with format "N|Y".
opted_in = [True, False, None, True]
no_contact = [True, False, True, None]

def spell(v, t, f):
    return '' if v is None else (t if v else f)

d = tempfile.mkdtemp()
try:
    path = os.path.join(d, 'flags.csv')
    with open(path, 'w', encoding='utf-8') as f:
        f.write('opted_in\tno_contact\n')
        for a, b in zip(opted_in, no_contact):
            f.write(spell(a, 'Y', 'N') + '\t' + spell(b, 'N', 'Y') + '\n')
    md = {
        '@context': 'http://www.w3.org/ns/csvw',
        'url': 'flags.csv',
        'dialect': {'delimiter': '\t'},
        'tableSchema': {'columns': [
            {'name': 'opted_in',
             'datatype': {'base': 'boolean', 'format': 'Y|N'}},
            {'name': 'no_contact',
             'datatype': {'base': 'boolean', 'format': 'N|Y'}},
        ]},
    }
    mdpath = os.path.join(d, 'flags-metadata.json')
    with open(mdpath, 'w') as f:
        json.dump(md, f)
    out = io.StringIO()
    try:
        with contextlib.redirect_stdout(out):
            df = csv2pandas(path, mdpath=mdpath, verbosity=0)
    except Exception as e:
        print('C16 VIOLATED')
        print('  csv2pandas raised %s: %s' % (type(e).__name__, e))
        sys.exit(1)
finally:
    shutil.rmtree(d)

def col(c):
    return [None if pd.isna(v) else bool(v) for v in df[c]]

if col('opted_in') != opted_in or col('no_contact') != no_contact:
    print('C16 VIOLATED')
    print('  library printed:', out.getvalue().strip())
    print('  opted_in   (Y|N) written', opted_in, 'loaded', col('opted_in'))
    print('  no_contact (N|Y) written', no_contact, 'loaded',
          col('no_contact'))
    sys.exit(1)
print('C16 ok')
