"""
C07: for a datetime64[ns] column the discovered min and max are truncated to
microseconds, so the discovered max is SMALLER than the largest value in the
column (and neither bound is attained by any record).
"""
import sys
import warnings

import pandas as pd

warnings.simplefilter('ignore')
from tdda.constraints import discover_df
from tdda.constraints.pd.constraints import PandasConstraintDiscoverer

s = pd.Series(pd.to_datetime(['2024-03-01 12:00:00.123456789',
                              '2024-03-01 12:00:00.123456999'])
              ).astype('datetime64[ns]')
df = pd.DataFrame({'t': s})
disco = PandasConstraintDiscoverer(df)
m = disco.calc_min('t')
M = disco.calc_max('t')
fc = discover_df(df).to_dict()['fields']['t']

true_min = df['t'].min()
true_max = df['t'].max()
problems = []
if pd.Timestamp(M) != true_max:
    problems.append('max: discovered %r (%s) but largest value is %s; '
                    '%d of %d records exceed the discovered max'
                    % (M, fc.get('max'), true_max,
                       int((df['t'] > pd.Timestamp(M)).sum()), len(df)))
if pd.Timestamp(m) != true_min:
    problems.append('min: discovered %r (%s) but smallest value is %s'
                    % (m, fc.get('min'), true_min))
if not (df['t'] == pd.Timestamp(M)).any():
    problems.append('discovered max is not attained by any record')
if not (df['t'] == pd.Timestamp(m)).any():
    problems.append('discovered min is not attained by any record')

if problems:
    print('C07 VIOLATED')
    print('  column dtype', df['t'].dtype, 'values', list(df['t'].astype(str)))
    for p in problems:
        print('  ' + p)
    sys.exit(1)
print('C07 ok')
sys.exit(0)
