"""
C14 demo 2: with a seed and the DEFAULT Size, the expressions depend on the
ORDER of the examples because of the 'Other' character class.

A column of 12000+ distinct names contains a few symbol-only placeholders
('★★★', '—', '…') and two names written entirely in non-ASCII letters
('王伟', '李娜').  The placeholders are coarse-classified as 'Other' and give
the expression ^[^!-~\\s]+$ -- whose character class also matches every
non-ASCII *letter*.  If the two CJK names are not in the initial random sample
they are "explained" by that expression, never come back as failures, and the
name expression stays ASCII-only (^[A-Z][a-z]+$); if one of them is in the
sample the name expression becomes ^[^\\W0-9_]+$.  Which of the two happens
depends on the sample, and the sample is drawn from the strings in input
order, so permuting the same multiset under the same seed changes the answer.
"""
import random
import sys

from tdda.rexpy import extract

SEED = 2024


def make_examples():
    R = random.Random(1)           # private generator: global PRNG untouched
    cons, vows = 'bcdfghklmnprstvz', 'aeiou'
    names = set()
    while len(names) < 12200:
        n = R.randint(2, 4)
        s = ''.join(R.choice(cons) + R.choice(vows) for _ in range(n))
        names.add(s.capitalize())
    out = sorted(names)
    out += ['★', '★★', '★★★', '★★★★', '★★★★★', '—', '…', '？', '？？？？', '–']
    out += ['王伟', '李娜']
    return out


def main():
    examples = make_examples()
    state = random.getstate()
    base = extract(list(examples), seed=SEED)
    assert extract(list(examples), seed=SEED) == base, 'not even repeatable'
    perms = {'reversed': examples[::-1], 'sorted': sorted(examples)}
    for k in range(6):
        p = list(examples)
        random.Random(200 + k).shuffle(p)
        perms['shuffle%d' % k] = p
    problems = []
    for name, p in perms.items():
        assert sorted(p) == sorted(examples)
        r = extract(p, seed=SEED)
        if r != base:
            problems.append((name, r))
    assert random.getstate() == state
    if problems:
        print('C14 VIOLATED: same %d strings, same seed=%d, default Size; '
              'only the order of the list differs' % (len(examples), SEED))
        print('  original order -> %s' % base)
        for name, r in problems:
            print('  %-9s order -> %s' % (name, r))
        sys.exit(1)
    print('C14 ok')
    sys.exit(0)


if __name__ == '__main__':
    main()
