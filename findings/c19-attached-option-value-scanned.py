"""
C19 demo: the value attached to an ordinary unittest short option (-k<pattern>)
is scanned character by character for the tdda flags 1, 0 and W by
_set_flags_from_argv.  A pattern containing the digit 1 (or 0) silently turns
on tagged (or list-only) mode and has that digit deleted from the pattern.
"""
import os
import re
import shutil
import subprocess
import sys
import tempfile

MODULE = '''
import os, unittest
from tdda.referencetest import ReferenceTestCase, tag

class TestA(ReferenceTestCase):
    @tag
    def test_a1(self): print('RAN TestA.test_a1')
    def test_a2(self): print('RAN TestA.test_a2')

@tag
class TestB(ReferenceTestCase):
    def test_b1(self): print('RAN TestB.test_b1')
    def test_b2(self): print('RAN TestB.test_b2')

class TestC(ReferenceTestCase):
    def test_c1(self): print('RAN TestC.test_c1')
    def test_c10(self): print('RAN TestC.test_c10')

if __name__ == '__main__':
    if os.environ.get('PLAIN_UNITTEST'):
        unittest.main()            # the "usual meaning" of the options
    else:
        ReferenceTestCase.main()
'''


def run(tmp, args, plain=False):
    env = dict(os.environ)
    env.pop('PLAIN_UNITTEST', None)
    if plain:
        env['PLAIN_UNITTEST'] = '1'
    p = subprocess.run([sys.executable, os.path.join(tmp, 'mytests.py')] + args,
                       cwd=tmp, stdout=subprocess.PIPE, env=env,
                       stderr=subprocess.STDOUT, text=True)
    return sorted(re.findall(r'RAN (\S+)', p.stdout)), p.stdout


def main():
    tmp = tempfile.mkdtemp(prefix='c19v2')
    problems = []
    try:
        with open(os.path.join(tmp, 'mytests.py'), 'w') as f:
            f.write(MODULE)

        # 1. No tagging option at all: every test selected by the ordinary
        #    unittest options must run, i.e. the same as plain unittest.
        for args in (['-ktest_c1'], ['-v', '-ktest_c10'], ['-ktest_a2']):
            expected, _ = run(tmp, args, plain=True)
            ran, out = run(tmp, args)
            status = 'ok' if ran == expected else 'WRONG'
            print('%-22s executed=%s plain-unittest=%s  %s'
                  % (' '.join(args), ran, expected, status))
            if ran != expected:
                problems.append((args, ran, expected))

        # 2. --tagged combined with -k<pattern>: exactly the tagged tests
        #    that match the pattern.
        args = ['--tagged', '-kb1']
        expected = ['TestB.test_b1']
        ran, out = run(tmp, args)
        status = 'ok' if ran == expected else 'WRONG'
        print('%-22s executed=%s expected=%s  %s'
              % (' '.join(args), ran, expected, status))
        if ran != expected:
            problems.append((args, ran, expected))
    finally:
        shutil.rmtree(tmp, ignore_errors=True)
    if problems:
        print('C19 VIOLATED')
        for args, ran, expected in problems:
            print('  argv %s: executed %s, expected exactly %s'
                  % (args, ran, expected))
        sys.exit(1)
    print('C19 ok')
    sys.exit(0)


if __name__ == '__main__':
    main()
