"""
C05: a renamed / missing column must make the comparison FAIL (an assertion
failure with a description), never raise an internal error.  With sortby
naming the missing column, check_dataframe raises TypeError (or KeyError
when check_types=False) instead.
"""
import shutil
import sys
import tempfile
import unittest
import warnings

warnings.simplefilter('ignore')

import pandas as pd

from tdda.referencetest.checkpandas import PandasComparison
from tdda.referencetest import ReferenceTestCase

td = tempfile.mkdtemp()
tempfile.tempdir = td          # anything tdda writes goes under td
problems = []
try:
    ref = pd.DataFrame({'id': [3, 1, 2], 'v': [30.0, 10.0, 20.0]})
    act = ref.rename(columns={'id': 'ident'})       # column name changed

    c = PandasComparison(verbose=False, tmp_dir=td)
    for label, opts in [
        ('sortby=["id"]', dict(sortby=['id'])),
        ('sortby=["id"], check_types=False',
         dict(sortby=['id'], check_types=False)),
        ('sortby=["id"], check_extra_cols=False',
         dict(sortby=['id'], check_extra_cols=False)),
    ]:
        try:
            r = c.check_dataframe(act.copy(), ref.copy(), **opts)
            if r.failures == 0:
                problems.append('%s: comparison PASSED' % label)
            else:
                print('%s: failed properly: %s' % (label, r.diffs.lines[:2]))
        except Exception as e:
            problems.append('check_dataframe(%s): raised %s: %s'
                            % (label, type(e).__name__, e))

    # same thing through the public unittest entry point
    class T(ReferenceTestCase):
        def runTest(self):
            pass
    t = T()
    t.pandas.verbose = False
    T.verbose = False
    try:
        t.assertDataFramesEqual(act.copy(), ref.copy(), sortby=['id'])
        problems.append('assertDataFramesEqual: PASSED')
    except AssertionError as e:
        print('assertDataFramesEqual failed properly')
    except Exception as e:
        problems.append('assertDataFramesEqual(sortby=["id"]): raised %s: %s'
                        % (type(e).__name__, e))
finally:
    tempfile.tempdir = None
    shutil.rmtree(td, ignore_errors=True)

if problems:
    print('C05 VIOLATED')
    for p in problems:
        print('  ' + p)
    sys.exit(1)
print('C05 ok')
sys.exit(0)
