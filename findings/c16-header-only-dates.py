"""
C16: a header-only CSV file (no data rows) whose CSVW metadata declares only date / date-time columns with
formats must still load with the declared types.  csv2pandas upgraded the types only when some column had a
non-date dtype (`if upgrade_types and specified_types`), so in a table of date columns alone the zero-row
columns stayed dtype object.
"""
import json, os, shutil, sys, tempfile
from tdda.serial.reader import csv2pandas

d = tempfile.mkdtemp()
try:
    with open(os.path.join(d, 't.csv'), 'w') as f:
        f.write('when,day\n')
    md = {'@context': 'http://www.w3.org/ns/csvw', 'url': 't.csv',
          'tableSchema': {'columns': [{'name': 'when', 'datatype': {'base': 'datetime', 'format': 'dd/MM/yyyy HH:mm'}},
                                      {'name': 'day', 'datatype': {'base': 'date', 'format': 'dd.MM.yyyy'}}]}}
    with open(os.path.join(d, 't.csv-metadata.json'), 'w') as f:
        json.dump(md, f)
    df = csv2pandas(os.path.join(d, 't.csv'), mdpath=os.path.join(d, 't.csv-metadata.json'), verbosity=0)
    bad = [(c, str(df[c].dtype)) for c in df if not str(df[c].dtype).startswith('datetime64')]
    if bad:
        print('C16 VIOLATED: header-only table of date columns loads as %r' % bad)
        sys.exit(1)
    print('C16 ok')
finally:
    shutil.rmtree(d, ignore_errors=True)
