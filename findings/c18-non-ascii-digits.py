"""
C18: with the DEFAULT options, examples containing non-ASCII decimal digits
(full-width '４５６', Arabic-Indic, Devanagari ...) are credited to no
expression: incremental coverage does not sum to the number of examples.

rexpy classifies and verifies with \\d (which matches any Unicode decimal
digit), and only after the verification loop rewrites the expressions into
the output dialect (default 'portable': \\d -> [0-9]).  The coverage
functions then work on the rewritten expressions, which no longer match
those examples, so they silently drop out of every count.
"""
import sys

from tdda.rexpy.rexpy import Extractor

EXAMPLES = ['AB-123', 'CD-４５６', 'EF-789', 'EF-789', 'GH-٣٤٥']
N = len(EXAMPLES)
N_UNIQ = len(set(EXAMPLES))

problems = []
for kw in ({}, {'dialect': 'grep'}, {'dialect': 'portable', 'tag': True}):
    x = Extractor(EXAMPLES, **kw)
    print('options %s -> expressions %s' % (kw, x.results.rex))
    for dedup in (False, True):
        total = N_UNIQ if dedup else N
        if x.n_examples(dedup=dedup) != total:
            problems.append('%s dedup=%s: n_examples() = %d, supplied %d'
                            % (kw, dedup, x.n_examples(dedup=dedup), total))
        inc = x.incremental_coverage(dedup=dedup)
        s = sum(inc.values())
        if s != total:
            problems.append('%s dedup=%s: incremental coverage %s sums to %d '
                            'but %d examples were supplied (n_examples() = %d)'
                            % (kw, dedup, list(inc.items()), s, total,
                               x.n_examples(dedup=dedup)))
        full = x.full_incremental_coverage(dedup=dedup)
        s1 = sum(c.incr for c in full.values())
        s2 = sum(c.incr_uniq for c in full.values())
        if (s1, s2) != (N, N_UNIQ):
            problems.append('%s dedup=%s: full_incremental_coverage incr sums '
                            'to %d (of %d), incr_uniq to %d (of %d)'
                            % (kw, dedup, s1, N, s2, N_UNIQ))

# control: with dialect='perl' (\d kept) everything adds up
x = Extractor(EXAMPLES, dialect='perl')
print('control dialect=perl -> %s incremental %s of %d'
      % (x.results.rex, list(x.incremental_coverage().values()), x.n_examples()))

if problems:
    print('C18 VIOLATED')
    for p in problems:
        print('  -', p)
    sys.exit(1)
print('C18 ok')
sys.exit(0)
