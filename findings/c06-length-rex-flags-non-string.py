"""
C06 violation: min_length / max_length / rex constraints that fail because
the column is not a string column fail verification AND detection, but the
verifier returns before calling the detector, so no record is ever flagged.
"""
import os
import shutil
import sys
import tempfile

import pandas as pd

from tdda.constraints.pd.constraints import detect_df, verify_df


def verdicts(v):
    return {f: {k: bool(r[k]) for k in r} for f, r in v.fields.items()}


def main():
    problems = []
    tmp = tempfile.mkdtemp()
    try:
        # a code field that is supposed to hold 2-4 letter strings, but
        # the frame (e.g. read from parquet / a database) holds integers
        df = pd.DataFrame({'code': [12, 345, 6]})

        # (a) string constraints without a type constraint
        cons = {'fields': {'code': {'min_length': 2, 'max_length': 4,
                                    'rex': ['^[A-Z]+$']}}}
        out = os.path.join(tmp, 'detect.csv')
        with open(out, 'w') as f:           # stale file from an earlier run
            f.write('code,n_failures\n99,1\n')
        v = verify_df(df.copy(), cons, repair=False)
        d = detect_df(df.copy(), cons, repair=False, per_constraint=True,
                      output_fields=[], outpath=out)
        if verdicts(v) != verdicts(d):
            problems.append('verdicts differ')
        det = d.detected()
        flagcols = [c for c in det.columns if c.endswith('_ok')]
        nfail = d.detection.n_failing_records
        npass = d.detection.n_passing_records
        rows = len(pd.read_csv(out)) if os.path.exists(out) else None
        print('(a) verify failures=%d detect failures=%d flag columns=%s '
              'records passing=%d failing=%d rows in file=%s'
              % (v.failures, d.failures, flagcols, npass, nfail, rows))
        if d.failures == 3 and not flagcols:
            problems.append('3 constraints (min_length, max_length, rex) '
                            'fail on every record but no flag column is '
                            'produced for any of them')
        if d.failures > 0 and nfail == 0:
            problems.append('detection with %d failing constraints reports '
                            '%d passing / 0 failing records, returns an '
                            'empty frame and writes an output file with %s '
                            'records' % (d.failures, npass, rows))

        # (b) the same with the discovered type constraint as well
        #     (repair=False: the frame comes from a typed source)
        cons = {'fields': {'code': {'type': 'string', 'min_length': 2,
                                    'max_length': 4}}}
        d = detect_df(df.copy(), cons, repair=False, per_constraint=True,
                      output_fields=[], write_all=True)
        det = d.detected()
        flagcols = [c for c in det.columns if c.endswith('_ok')]
        failing = sorted(k for k, ok in verdicts(d)['code'].items()
                         if not ok)
        print('(b) failing constraints=%s flag columns=%s n_failures=%s'
              % (failing, flagcols, list(det['n_failures'])))
        if len(failing) == 3 and len(flagcols) == 1:
            problems.append('type, min_length and max_length all fail but '
                            'only code_type_ok exists; n_failures=%s, '
                            'expected 3 per record'
                            % list(det['n_failures']))
    finally:
        shutil.rmtree(tmp)

    if problems:
        print('C06 VIOLATED')
        for p in problems:
            print(' -', p)
        sys.exit(1)
    print('C06 ok')
    sys.exit(0)


if __name__ == '__main__':
    main()
