"""
C09 witness: date-valued min/max bounds are only turned back into dates on
loading if the same field has exactly  "type": "date".

DatasetConstraints.initialize_from_dict() decides with
    is_date = 'type' in c and c['type'] == 'date'
so when the type constraint is a list (documented: "It can also be a list of
such allowed values"), e.g. ["date"] or ["date", "string"], or when the field
has no type constraint at all, the bounds written as 'YYYY-MM-DD HH:MM:SS'
come back as plain strings.  A constraint set that passes on some data in
memory therefore fails min and max on the same data after one write/load
cycle.
"""
import datetime
import json
import os
import shutil
import sys
import tempfile

import pandas as pd

from tdda.constraints import verify_df
from tdda.constraints.base import (DatasetConstraints, FieldConstraints,
                                   TypeConstraint, MinConstraint,
                                   MaxConstraint)
from tdda.constraints.pd.constraints import (PandasConstraintVerifier,
                                             PandasVerification)


def verdicts(v):
    return {f: dict(r) for f, r in v.fields.items()}


def check(label, field_constraints, df, tmp):
    cs = DatasetConstraints([FieldConstraints('d', field_constraints)])
    text1 = cs.to_json()
    v_mem = PandasConstraintVerifier(df.copy()).verify(
        cs, VerificationClass=PandasVerification)
    path = os.path.join(tmp, 'c.tdda')
    with open(path, 'w', encoding='utf-8') as f:
        f.write(text1)
    loaded = DatasetConstraints(loadpath=path)
    v_path = verify_df(df.copy(), path, repair=False)
    v_dict = verify_df(df.copy(), json.loads(text1), repair=False)
    mem, pth, dct = verdicts(v_mem), verdicts(v_path), verdicts(v_dict)
    if mem == pth == dct:
        return None
    return ('%s\n'
            '    written field      : %s\n'
            '    bound in memory    : %r\n'
            '    bound after load   : %r\n'
            '    verdicts in memory : %s\n'
            '    verdicts from path : %s\n'
            '    verdicts from dict : %s'
            % (label, json.dumps(json.loads(text1)['fields']['d']),
               cs.fields['d']['min'].value, loaded.fields['d']['min'].value,
               mem, pth, dct))


def main():
    df = pd.DataFrame({'d': pd.to_datetime(['2020-01-01', '2020-06-01',
                                            '2021-01-01'])})
    lo = datetime.datetime(2020, 1, 1)
    hi = datetime.datetime(2021, 1, 1)
    tmp = tempfile.mkdtemp()
    try:
        results = [
            check('type given as the one-element list ["date"]',
                  [TypeConstraint(['date']), MinConstraint(lo),
                   MaxConstraint(hi)], df, tmp),
            check('type given as the list ["date", "string"]',
                  [TypeConstraint(['date', 'string']), MinConstraint(lo),
                   MaxConstraint(hi)], df, tmp),
            check('no type constraint on the field',
                  [MinConstraint(lo), MaxConstraint(hi)], df, tmp),
            # control: scalar "date" type round-trips correctly
            check('control: type "date"',
                  [TypeConstraint('date'), MinConstraint(lo),
                   MaxConstraint(hi)], df, tmp),
        ]
    finally:
        shutil.rmtree(tmp)
    bad = [r for r in results if r]
    if bad:
        print('C09 VIOLATED')
        for r in bad:
            print(r)
        return 1
    print('C09 ok')
    return 0


if __name__ == '__main__':
    sys.exit(main())
