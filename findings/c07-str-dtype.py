"""
C07: a plain string column (pandas 3 default dtype 'str') gets NO constraints
at all from discovery -- not even a type -- and the field is silently dropped.
"""
import os
import shutil
import sys
import tempfile
import warnings

import pandas as pd

warnings.simplefilter('ignore')
from tdda.constraints import discover_df
from tdda.constraints.pd.constraints import load_df

problems = []

# 1. API: an ordinary frame built from Python strings
df = pd.DataFrame({'name': ['ann', 'bob', None, 'ann'], 'n': [1, 2, 3, 4]})
c = discover_df(df)
fields = c.to_dict()['fields'] if c else {}
expected = {'type': 'string', 'min_length': 3, 'max_length': 3,
            'max_nulls': 1, 'allowed_values': ['ann', 'bob']}
got = dict(fields['name']) if 'name' in fields else None
if got != expected:
    problems.append('discover_df: column name (dtype %s): expected %r, got %r'
                    % (df['name'].dtype, expected, got))

# 2. the same data through the library's own CSV loader (tdda discover x.csv)
tmp = tempfile.mkdtemp()
try:
    path = os.path.join(tmp, 'x.csv')
    with open(path, 'w') as f:
        f.write('name,n\nann,1\nbob,2\n,3\nann,4\n')
    df2 = load_df(path)
    c2 = discover_df(df2, df_path=path)
    fields2 = c2.to_dict()['fields'] if c2 else {}
    got2 = dict(fields2['name']) if 'name' in fields2 else None
    if got2 != expected:
        problems.append('load_df + discover_df: column name (dtype %s): '
                        'expected %r, got %r'
                        % (df2['name'].dtype, expected, got2))
finally:
    shutil.rmtree(tmp)

if problems:
    print('C07 VIOLATED')
    for p in problems:
        print('  ' + p)
    sys.exit(1)
print('C07 ok')
sys.exit(0)
