"""
C08 witness: a 64-bit integer column whose max (or min) is beyond 2**53.

After discovery, a row is added whose value is max+1 (resp. min-1).
Verification must report the max (min) constraint as failed, but it passes,
because the "fuzzy" comparison multiplies the constraint value by the float
(1 + epsilon) == 1.0 even when epsilon is 0, which rounds a big int to the
nearest double.
"""
import contextlib
import io
import os
import shutil
import sys
import tempfile

from tdda.constraints.db.drivers import database_connection
from tdda.constraints.db.constraints import discover_db_table, verify_db_table


def failed(v):
    return [(f, k) for f, d in v.fields.items() for k, ok in d.items()
            if not ok]


def run(tmp, name, values, newvalue, kind):
    dbpath = os.path.join(tmp, name + '.db')
    tdda_path = os.path.join(tmp, name + '.tdda')
    db = database_connection(dbtype='sqlite', database=dbpath)
    c = db.connection
    c.execute('CREATE TABLE orders (id INTEGER)')
    c.executemany('INSERT INTO orders VALUES (?)', [(v,) for v in values])
    c.commit()

    constraints = discover_db_table('sqlite', db, 'orders')
    with open(tdda_path, 'w') as f:
        f.write(constraints.to_json())
    discovered = constraints.to_dict()['fields']['id']

    v0 = verify_db_table('sqlite', db, 'orders', tdda_path, testing=True)

    c.execute('INSERT INTO orders VALUES (?)', (newvalue,))
    c.commit()
    v1 = verify_db_table('sqlite', db, 'orders', tdda_path, testing=True)
    c.close()

    problems = []
    if v0.failures:
        problems.append('%s: discovered constraints fail on their own table: %s'
                        % (name, failed(v0)))
    if ('id', kind) not in failed(v1):
        problems.append(
            '%s: discovered %s = %d; added a row with id = %d (%s); '
            'verification reported failures = %s, so the violated %s '
            'constraint was NOT noticed'
            % (name, kind, discovered[kind], newvalue,
               'above the max' if kind == 'max' else 'below the min',
               failed(v1), kind))
    return problems


def main():
    tmp = tempfile.mkdtemp(prefix='c08_v1_')
    problems = []
    try:
        with contextlib.redirect_stderr(io.StringIO()):
            # typical 64-bit "snowflake"-style ids
            problems += run(tmp, 'snowflake',
                            [1500000000000000001, 1500000000000000257,
                             1500000000000000700],
                            1500000000000000701, 'max')
            # smallest case: 2**53 + 3 is not representable as a double
            problems += run(tmp, 'just_over_2_53',
                            [5, 2 ** 53 + 3], 2 ** 53 + 4, 'max')
            problems += run(tmp, 'negative',
                            [-(2 ** 53 + 3), 5], -(2 ** 53 + 4), 'min')
            # the largest value SQLite can hold
            problems += run(tmp, 'int64_max',
                            [2 ** 63 - 2], 2 ** 63 - 1, 'max')
    finally:
        shutil.rmtree(tmp, ignore_errors=True)

    if problems:
        print('C08 VIOLATED')
        for p in problems:
            print(' -', p)
        sys.exit(1)
    print('C08 ok')
    sys.exit(0)


if __name__ == '__main__':
    main()
