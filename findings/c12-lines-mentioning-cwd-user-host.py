"""
C12 violation 2: when a line of the command's output mentions the directory
the command runs in (or the user name / host name), tdda gentest puts that
string into ignore_substrings, and the generated test then ignores EVERY
difference on such a line: the number of records, an accuracy figure, ...
can change and the test keeps passing.
"""
import getpass
import os
import shutil
import subprocess
import sys
import tempfile

PY = sys.executable


def gentest_then_change(prog_before, prog_after, top, n):
    """
    Generates a test (tdda gentest, all defaults, checking '.') for the
    command 'python cmd.py' while cmd.py is prog_before; runs the generated
    test (must pass); then changes the behaviour of the command to
    prog_after and runs the generated test again.

    Returns (generated_ok, passes_unchanged, passes_after_change, script_text)
    """
    case = os.path.join(top, 'case%d' % n)
    work = os.path.join(case, 'work')
    tmp = os.path.join(case, 'tmp')
    os.makedirs(work)
    os.makedirs(tmp)
    prog = os.path.join(case, 'cmd.py')
    with open(prog, 'w') as f:
        f.write(prog_before)
    env = dict(os.environ)
    env['TMPDIR'] = tmp          # gentest's own temporary area: inside top
    env['PYTHONHASHSEED'] = '0'
    command = '%s %s' % (PY, prog)
    subprocess.run([PY, '-m', 'tdda.referencetest.gentest', command,
                    'test_x.py', '.'], cwd=work, env=env,
                   capture_output=True, text=True)
    script = os.path.join(work, 'test_x.py')
    if not os.path.exists(script):
        return (False, None, None, '')
    with open(script) as f:
        text = f.read()
    before = subprocess.run([PY, script], cwd=work, env=env,
                            capture_output=True, text=True)
    with open(prog, 'w') as f:
        f.write(prog_after)
    after = subprocess.run([PY, script], cwd=work, env=env,
                           capture_output=True, text=True)
    return (True, before.returncode == 0, after.returncode == 0, text)


# Case A: stdout mentions the (absolute) path of the file written.
PROG_A = ("import os\n"
          "print('starting')\n"
          "print('wrote %d records to ' + os.path.join(os.getcwd(), "
          "'out.csv'))\n"
          "with open('out.csv', 'w') as f:\n"
          "    f.write('id,v\\n1,2\\n')\n")

# Case B: a log file (checked output file) has a line with the path in it.
PROG_B = ("import os\n"
          "with open('run.log', 'w') as f:\n"
          "    f.write('run log\\n')\n"
          "    f.write('model saved to ' + os.getcwd() + '/m.bin; "
          "accuracy=%s\\n')\n"
          "    f.write('done\\n')\n")

# Case C: a constant line of stdout contains the user name as a word.
USER = getpass.getuser()
PROG_C = ("print('summary')\n"
          "print('owner " + USER + ": %d files, 0 errors')\n")

# Control: same kind of change on a line without any such string.
PROG_D = ("print('summary')\n"
          "print('total: %d files, 0 errors')\n")

CASES = [
    ('control: "total: 5 files" -> "total: 6 files" (must be detected)',
     PROG_D % 5, PROG_D % 6, True),
    ('stdout line "wrote 5 records to <cwd>/out.csv" -> "wrote 6 records '
     'to <cwd>/out.csv"', PROG_A % 5, PROG_A % 6, False),
    ('run.log line "model saved to <cwd>/m.bin; accuracy=0.91" -> '
     '"...; accuracy=0.12"', PROG_B % '0.91', PROG_B % '0.12', False),
    ('stdout line "owner %s: 5 files, 0 errors" -> "owner %s: 7 files, '
     '0 errors" (%s is the user name)' % (USER, USER, USER),
     PROG_C % 5, PROG_C % 7, False),
]


def main():
    top = tempfile.mkdtemp(prefix='c12v2_')
    undetected = []
    problems = []
    try:
        for n, (desc, before, changed, control) in enumerate(CASES):
            (gen, ok_same, ok_changed, text) = gentest_then_change(before,
                                                                  changed,
                                                                  top, n)
            if not gen or not ok_same:
                problems.append('%s: generation/unchanged run did not work'
                                % desc)
            elif control and ok_changed:
                problems.append('control change was not detected?!')
            elif not control and ok_changed:
                undetected.append((desc, 'ignore_substrings' in text))
    finally:
        shutil.rmtree(top)
    if undetected:
        print('C12 VIOLATED: the generated test still passes (all tests OK) '
              'after each of these single changes to the command\'s output:')
        for (d, ign) in undetected:
            print('   - %s%s' % (d, '   [generated test uses '
                                    'ignore_substrings]' if ign else ''))
        for p in problems:
            print('   (note: %s)' % p)
        sys.exit(1)
    print('C12 ok' + (' (%s)' % '; '.join(problems) if problems else ''))
    sys.exit(0)


if __name__ == '__main__':
    main()
