"""C16: a date (or datetime) column holding an instant outside the
datetime64[ns] range (e.g. the common 'end of time' sentinel 9999-12-31, or a
historical date such as 1066-10-14) cannot be loaded when the table also has
any non-date declared column: csv2pandas raises OutOfBoundsDatetime.
pandas 3 read_csv itself parses the column fine (datetime64[us]); it is the
unconditional .astype('datetime64[ns]') in csv2pandas that fails."""
import json, os, shutil, sys, tempfile
import datetime as dt
import pandas as pd
from tdda.serial import csv2pandas

ids = [1, 2, 3, 4]
valid_to = [dt.datetime(2021, 6, 30), dt.datetime(9999, 12, 31), None,
            dt.datetime(1066, 10, 14)]

d = tempfile.mkdtemp()
try:
    path = os.path.join(d, 'contracts.csv')
    with open(path, 'w', encoding='utf-8') as f:
        f.write('id;valid_to\n')
        for i, v in zip(ids, valid_to):
            f.write('%d;%s\n' % (i, '' if v is None else v.strftime('%d/%m/')
                                  + '%04d' % v.year))
    md = {
        '@context': 'http://www.w3.org/ns/csvw',
        'url': 'contracts.csv',
        'dialect': {'delimiter': ';', 'encoding': 'utf-8'},
        'tableSchema': {'columns': [
            {'name': 'id', 'datatype': 'integer'},
            {'name': 'valid_to',
             'datatype': {'base': 'date', 'format': 'dd/MM/yyyy'}},
        ]},
    }
    mdpath = os.path.join(d, 'contracts-metadata.json')
    with open(mdpath, 'w') as f:
        json.dump(md, f)
    try:
        df = csv2pandas(path, mdpath=mdpath, verbosity=0)
    except Exception as e:
        print('C16 VIOLATED')
        print('  dates written (dd/MM/yyyy):', valid_to)
        print('  csv2pandas raised %s: %s' % (type(e).__name__, e))
        sys.exit(1)
finally:
    shutil.rmtree(d)

got = [None if pd.isna(v) else v.to_pydatetime() for v in df['valid_to']]
if got != valid_to or not str(df['valid_to'].dtype).startswith('datetime64'):
    print('C16 VIOLATED')
    print('  written:', valid_to)
    print('  loaded :', got, df['valid_to'].dtype)
    sys.exit(1)
print('C16 ok')
