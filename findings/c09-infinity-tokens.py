"""
C09 witness: the .tdda text is not valid JSON when a real field contains an
infinite value.

discover_df() on a float column containing inf / -inf produces min/max bounds
of -inf / inf; DatasetConstraints.to_json() calls json.dumps() with the
default allow_nan=True, which emits the bare tokens  Infinity / -Infinity.
These are not JSON (RFC 8259): any standards-conforming reader rejects the
file.  (Python's own json.loads happens to accept them, which hides it.)
"""
import json
import os
import shutil
import sys
import tempfile

import numpy as np
import pandas as pd

from tdda.constraints import discover_df
from tdda.constraints.pd.discover import discover_df_from_file


def reject_constant(name):
    raise ValueError('non-JSON token %s' % name)


def strict_json_error(text):
    """Parse as strict JSON (no NaN/Infinity extension); return error or None"""
    try:
        json.loads(text, parse_constant=reject_constant)
    except ValueError as e:
        return str(e)
    return None


def main():
    problems = []

    # 1. API: discover_df(...).to_json()
    df = pd.DataFrame({'ratio': [0.5, 2.0, np.inf, -np.inf]})
    text = discover_df(df).to_json()
    err = strict_json_error(text)
    if err:
        lines = [l.strip() for l in text.splitlines() if 'Infinity' in l]
        problems.append(('discover_df(df).to_json()', err, lines))

    # 2. command-line path: tdda discover data.csv constraints.tdda
    tmp = tempfile.mkdtemp()
    try:
        csv = os.path.join(tmp, 'data.csv')
        with open(csv, 'w') as f:
            f.write('ratio\n0.5\n2.0\ninf\n')
        out = os.path.join(tmp, 'data.tdda')
        discover_df_from_file(csv, out, verbose=False)
        with open(out, encoding='utf-8') as f:
            ftext = f.read()
    finally:
        shutil.rmtree(tmp)
    err = strict_json_error(ftext)
    if err:
        lines = [l.strip() for l in ftext.splitlines() if 'Infinity' in l]
        problems.append(('file written by tdda discover', err, lines))

    if problems:
        print('C09 VIOLATED')
        for what, err, lines in problems:
            print('%s is not valid JSON: %s' % (what, err))
            for l in lines:
                print('    offending line: %s' % l)
        return 1
    print('C09 ok')
    return 0


if __name__ == '__main__':
    sys.exit(main())
