"""
C09 witness: a date bound that carries a UTC offset does not survive a
write/load cycle.

discover_df() on a timezone-aware datetime column produces min/max bounds that
are timezone-aware datetimes; to_json() writes them as
'YYYY-MM-DD HH:MM:SS+00:00'.  On loading, base.get_date() only recognises
'YYYY-MM-DD', 'YYYY-MM-DD HH:MM:SS' and 'YYYY-MM-DD HH:MM:SS.ffffff', so the
bound stays a *string*, and verification of the very same data then fails
min and max (string bound is not type-compatible with the date column).
"""
import json
import os
import shutil
import sys
import tempfile

import pandas as pd

from tdda.constraints import discover_df, verify_df
from tdda.constraints.base import DatasetConstraints
from tdda.constraints.pd.constraints import (PandasConstraintVerifier,
                                             PandasVerification)


def verdicts(v):
    return {f: dict(r) for f, r in v.fields.items()}


def main():
    df = pd.DataFrame({
        't': pd.to_datetime(['2020-01-01 10:00:00',
                             '2021-06-01 12:30:00']).tz_localize('UTC'),
    })
    cs = discover_df(df)                       # the constraint set, in memory
    text1 = cs.to_json()

    # verdicts of the in-memory constraint set (what verify_df does after
    # loading, but without the write/load cycle)
    v_mem = PandasConstraintVerifier(df.copy()).verify(
        cs, VerificationClass=PandasVerification)

    tmp = tempfile.mkdtemp()
    try:
        path = os.path.join(tmp, 'tz.tdda')
        with open(path, 'w', encoding='utf-8') as f:
            f.write(text1)
        loaded = DatasetConstraints(loadpath=path)
        v_path = verify_df(df.copy(), path)
        v_dict = verify_df(df.copy(), json.loads(text1))
    finally:
        shutil.rmtree(tmp)

    mem, pth, dct = verdicts(v_mem), verdicts(v_path), verdicts(v_dict)
    minval = loaded.fields['t']['min'].value
    bad = (mem != pth) or (mem != dct)
    if bad:
        print('C09 VIOLATED')
        print('written bounds     : min=%r max=%r'
              % (json.loads(text1)['fields']['t']['min'],
                 json.loads(text1)['fields']['t']['max']))
        print('in-memory bound    : %r' % (cs.fields['t']['min'].value,))
        print('bound after load   : %r (%s)' % (minval,
                                                type(minval).__name__))
        print('verdicts in memory : %s  (passes=%d failures=%d)'
              % (mem, v_mem.passes, v_mem.failures))
        print('verdicts from path : %s  (passes=%d failures=%d)'
              % (pth, v_path.passes, v_path.failures))
        print('verdicts from dict : %s  (passes=%d failures=%d)'
              % (dct, v_dict.passes, v_dict.failures))
        print('The data the constraints were discovered from fails min and '
              'max once the constraints have been written and loaded back.')
        return 1
    print('C09 ok')
    return 0


if __name__ == '__main__':
    sys.exit(main())
