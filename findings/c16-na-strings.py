"""C16: a string column whose values are legitimate strings such as "NA"
(ISO country code of Namibia), "null", "None", "nan", "N/A" loads as nulls,
because the read_csv kwargs built from the CSVW metadata leave pandas'
default NA-string list switched on.  CSVW's default null marker is only ''."""
import csv, json, os, shutil, sys, tempfile
import pandas as pd
from tdda.serial import csv2pandas

codes = ['GB', 'NA', None, 'null', 'None', 'nan', 'N/A', 'NULL', 'n/a', 'FR']
pops = [67, 3, None, 1, 2, 3, 4, 5, 6, 68]

d = tempfile.mkdtemp()
try:
    path = os.path.join(d, 'countries.csv')
    with open(path, 'w', newline='', encoding='utf-8') as f:
        w = csv.writer(f)
        w.writerow(['code', 'pop'])
        for c, p in zip(codes, pops):
            w.writerow(['' if c is None else c, '' if p is None else p])
    md = {
        '@context': 'http://www.w3.org/ns/csvw',
        'url': 'countries.csv',
        'dialect': {'delimiter': ',', 'encoding': 'utf-8', 'header': True},
        'tableSchema': {'columns': [
            {'name': 'code', 'datatype': 'string'},
            {'name': 'pop', 'datatype': 'integer'},
        ]},
    }
    mdpath = os.path.join(d, 'countries-metadata.json')
    with open(mdpath, 'w') as f:
        json.dump(md, f)
    df = csv2pandas(path, mdpath=mdpath, verbosity=0)
finally:
    shutil.rmtree(d)

got = [None if pd.isna(v) else v for v in df['code']]
if got != codes:
    print('C16 VIOLATED')
    print('  string column written :', codes)
    print('  string column loaded  :', got)
    lost = [c for c, g in zip(codes, got) if c is not None and g is None]
    print('  values turned into nulls:', lost)
    sys.exit(1)
print('C16 ok')
