"""
C03 witness: strings with more than 99 character-class runs are assigned to the
'Any' category and rexpy returns '^.+$' (or '^.{m,n}$').  rexpy only ever
checks its expressions with re.DOTALL switched on (RE_FLAGS), but the returned
expression is a plain string: read as a Python / Perl / grep expression,
'.' does not match a line feed, so multi-line examples are matched by none of
the returned expressions.
"""
import re
import sys
import warnings

warnings.simplefilter('ignore')

import pandas as pd
from tdda.rexpy import extract, pdextract

# Two multi-line free-text notes, each with > 99 runs of letters/spaces/punct.
words = ('the quick brown fox jumps over the lazy dog and then runs back '
         'home again before the rain starts to fall on the old tin roof').split()
note1 = ('Call 1: ' + ' '.join(words) + ',\n'
         + 'Call 2: ' + ' '.join(reversed(words)) + '.\n'
         + 'Outcome: ' + ' '.join(words[:20]) + '; closed.')
note2 = ('Visit A: ' + ' '.join(words[3:]) + ' ' + ' '.join(words[:9]) + ';\n'
         + 'Visit B: ' + ' '.join(words) + '!\n'
         + 'Outcome: ' + ' '.join(words[5:25]) + ' - open.')
examples = [note1, note2]

problems = []
runs = [('extract list, dialect=%s' % d, extract(list(examples), dialect=d))
        for d in ('perl', 'portable', 'grep')]
runs.append(('extract list, perl, tag=True',
             extract(list(examples), dialect='perl', tag=True)))
runs.append(('extract freq dict, portable',
             extract({note1: 3, note2: 1})))
runs.append(('pdextract Series', pdextract(pd.Series(examples))))

for label, rexes in runs:
    for s in examples:
        if not any(re.fullmatch(r, s) for r in rexes):
            with_dotall = any(re.fullmatch(r, s, re.DOTALL) for r in rexes)
            problems.append((label, rexes, s, with_dotall))

if problems:
    print('C03 VIOLATED')
    for label, rexes, s, with_dotall in problems:
        print('  %s: returned %r; example %r... (%d chars, contains a line '
              'feed) is matched in full by none of them%s'
              % (label, rexes, s[:30], len(s),
                 ' (it only matches with the re.DOTALL flag, which the '
                 'returned string does not carry)' if with_dotall else ''))
    sys.exit(1)
print('C03 ok')
sys.exit(0)
