"""
C03 witness: Size(max_strings_in_group=0) ("keep no per-fragment strings",
i.e. never emit a constant string for a fragment) has the opposite effect.
Extractor.analyse_fragments stops collecting a fragment's distinct strings
once the cap is passed, but always stores the first one, and
Extractor.refine_fragments then reads 'exactly one string collected' as
'the fragment is the same string in every example': the first example's text
is emitted as a constant and every other example is left unmatched.
"""
import re
import sys
import warnings

warnings.simplefilter('ignore')

from tdda.rexpy import extract
from tdda.rexpy.rexpy import Size

examples = ['AB-1234', 'CD-5678', 'EF-9012', 'GH-3456']

problems = []
for dialect in ('perl', 'portable', 'grep'):
    for kw in ({}, {'tag': True}, {'variableLengthFrags': True}):
        rexes = extract(list(examples), dialect=dialect,
                        size=Size(max_strings_in_group=0), seed=1, **kw)
        bad = [s for s in examples
               if not any(re.fullmatch(r, s) for r in rexes)]
        if bad:
            problems.append((dialect, kw, rexes, bad))

# control: the default cap gives a covering expression
control = extract(list(examples))
assert all(any(re.fullmatch(r, s) for r in control) for s in examples)

if problems:
    print('C03 VIOLATED')
    for dialect, kw, rexes, bad in problems:
        print('  extract(%r, dialect=%r, size=Size(max_strings_in_group=0)%s)'
              ' returned %r; unmatched examples: %r'
              % (examples, dialect,
                 ''.join(', %s=%r' % kv for kv in kw.items()), rexes, bad))
    print('  (control: with the default Size the result is %r)' % control)
    sys.exit(1)
print('C03 ok')
sys.exit(0)
