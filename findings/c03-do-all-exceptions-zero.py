"""
C03: every example is matched by one of the expressions returned, for every sampling-size setting.  With
Size(do_all_exceptions=0) and more distinct examples than do_all, the initial sample was random.sample(z, 0): the working
set stayed empty and extract() returned no expression at all.
"""
import re, sys
from tdda.rexpy import rexpy as rx

ex = ['ab-12', 'cd-34', 'ef-56', 'gh-78', 'x', 'yy', 'zzz']
bad = []
for kw in (dict(do_all=2, do_all_exceptions=0), dict(do_all=1, do_all_exceptions=0, max_sampled_attempts=1)):
    for seed in (None, 1):
        r = rx.extract(list(ex), size=rx.Size(**kw), seed=seed, dialect='perl')
        un = [s for s in ex if not any(re.fullmatch(p, s) for p in r)]
        if un:
            bad.append('Size(%s) seed=%r returns %r: unmatched %r' % (kw, seed, r, un))
if bad:
    print('C03 VIOLATED: ' + '; '.join(bad[:2]))
    sys.exit(1)
print('C03 ok')
