import os
import shutil
import sys
import tempfile

from tdda.referencetest.referencetest import ReferenceTest


def verdicts(tmp, actual_text, ref_text, **opts):
    """Return {'string-vs-file': bool, 'file-vs-file': bool, 'list-of-files': bool}
    (True = the check passed) for the three public text entry points."""
    ReferenceTest.set_defaults(verbose=False, tmp_dir=tmp)
    ref = os.path.join(tmp, 'ref.txt')
    act = os.path.join(tmp, 'actual.txt')
    with open(ref, 'w', encoding='utf-8') as f:
        f.write(ref_text)
    with open(act, 'w', encoding='utf-8') as f:
        f.write(actual_text)
    out = {}
    for name, call in [
        ('string-vs-file',
         lambda rt: rt.assertStringCorrect(actual_text, ref, **opts)),
        ('file-vs-file',
         lambda rt: rt.assertTextFileCorrect(act, ref, **opts)),
        ('list-of-files',
         lambda rt: rt.assertTextFilesCorrect([act], [ref], **opts)),
    ]:
        seen = []
        rt = ReferenceTest(lambda ok, msg, seen=seen: seen.append(bool(ok)))
        call(rt)
        out[name] = seen[-1]
    return out


def main():
    tmp = tempfile.mkdtemp(prefix='c04v1_')
    try:
        bad = []
        # The two texts differ ONLY in a number, and numbers are declared
        # ignorable with ignore_patterns=[r'\d+'].  Property C04 says the
        # check must pass ("the two lines differ only in parts matched by
        # an ignore-pattern").
        cases = [
            ('took 12 ms\n', 'took 7 ms\n', [r'\d+']),
            ('processed 1000 records\n', 'processed 999 records\n', [r'\d+']),
            ('pid=4242 started\n', 'pid=311 started\n', [r'pid=\d+']),
            ('elapsed: 10.5s\n', 'elapsed: 9.5s\n', [r'[0-9.]+s']),
            ('7\n', '77\n', [r'\d+']),
        ]
        for actual, ref, pats in cases:
            v = verdicts(tmp, actual, ref, ignore_patterns=pats)
            for entry, passed in v.items():
                if not passed:
                    bad.append('%s: actual %r vs reference %r with '
                               'ignore_patterns=%r FAILS, should pass'
                               % (entry, actual, ref, pats))
        # control: same texts but with equally long numbers do pass, which
        # shows the pattern itself is fine and accepted by the library
        ctl = verdicts(tmp, 'took 12 ms\n', 'took 70 ms\n',
                       ignore_patterns=[r'\d+'])
        print('control (12 vs 70, same width):', ctl)
        if bad:
            print('C04 VIOLATED')
            for b in bad:
                print('  ' + b)
            return 1
        print('C04 ok')
        return 0
    finally:
        shutil.rmtree(tmp, ignore_errors=True)


if __name__ == '__main__':
    sys.exit(main())
