"""
C17: an invocation naming a missing input file ends with exit status 0
whenever the name does not carry one of the extensions the Pandas extension
looks for (.csv .psv .tsv .parquet .json .yaml): console.main_with_argv falls
through to no_constraints(), prints help, and returns normally.
(The same fall-through swallows an EXISTING csv file called DATA.CSV or
data.txt: exit 0, no constraints written, while the library handles it.)
"""
import os
import shutil
import subprocess
import sys
import tempfile

from tdda.constraints.pd.constraints import discover_df, load_df

GOOD = 'n,f,b\n1,1.5,True\n2,2.5,False\n3,,True\n'


def cli(args, cwd):
    return subprocess.run([sys.executable, '-m', 'tdda.constraints.console']
                          + args, cwd=cwd, capture_output=True, text=True)


def main():
    tmp = tempfile.mkdtemp()
    try:
        good = os.path.join(tmp, 'good.csv')
        tdda = os.path.join(tmp, 'good.tdda')
        with open(good, 'w') as f:
            f.write(GOOD)
        with open(tdda, 'w') as f:
            f.write(discover_df(load_df(good)).to_json())

        # sanity: a missing input called *.csv is rejected properly
        r = cli(['verify', os.path.join(tmp, 'missing.csv'), tdda], tmp)
        assert r.returncode != 0

        problems = []
        cases = [
            ['verify', os.path.join(tmp, 'missing'), tdda],
            ['verify', os.path.join(tmp, 'missing.txt'), tdda],
            ['discover', os.path.join(tmp, 'missing.CSV'),
             os.path.join(tmp, 'new.tdda')],
            ['detect', os.path.join(tmp, 'missing.dat'), tdda,
             os.path.join(tmp, 'out.txt')],
        ]
        for args in cases:
            assert not os.path.exists(args[1])
            r = cli(args, tmp)
            if r.returncode == 0:
                shown = ' '.join(os.path.basename(a) for a in args)
                problems.append('tdda %s: input does not exist, exit status 0'
                                % shown)

        # an existing CSV file whose name is DATA.CSV: library fine, CLI no-op
        upper = os.path.join(tmp, 'DATA.CSV')
        shutil.copy(good, upper)
        out = os.path.join(tmp, 'upper.tdda')
        r = cli(['discover', upper, out], tmp)
        lib = discover_df(load_df(upper))
        if lib is not None and r.returncode == 0 and not os.path.exists(out):
            problems.append('tdda discover DATA.CSV upper.tdda: exit status 0 '
                            'but no constraints written (library discovers '
                            '%d fields from the same file)' % len(lib.fields))

        if problems:
            print('C17 VIOLATED')
            for p in problems:
                print('  ' + p)
            return 1
        print('C17 ok')
        return 0
    finally:
        shutil.rmtree(tmp, ignore_errors=True)


if __name__ == '__main__':
    sys.exit(main())
