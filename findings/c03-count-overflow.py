"""
C03 witness: a frequency dictionary with a count of 2**31 or more (or counts
that reach 2**31 when two keys are merged by stripping) makes rexpy raise
OverflowError, because Extractor.clean stores the frequencies in a C 'int'
array (ilist -> array('i')).  No expression is returned at all, so no example
is matched.
"""
import re
import sys
import warnings

warnings.simplefilter('ignore')

from tdda.rexpy import extract

cases = [
    ('one value seen 3,000,000,000 times',
     {'US': 3000000000, 'GB': 120000, 'FR': 95000}, {}),
    ('two keys that strip to the same string, 2**30 each',
     {'US': 2 ** 30, 'US ': 2 ** 30, 'GB': 7}, {'strip': True}),
]

problems = []
for label, freqs, kw in cases:
    try:
        rexes = extract(dict(freqs), **kw)
    except Exception as e:
        problems.append('%s: extract(%r%s) raised %s: %s - no expression is '
                        'returned for any of the examples'
                        % (label, freqs,
                           ''.join(', %s=%r' % kv for kv in kw.items()),
                           type(e).__name__, e))
        continue
    for s in freqs:
        if not any(re.fullmatch(r, s) for r in rexes):
            problems.append('%s: %r not matched by %r' % (label, s, rexes))

# the same examples with smaller counts are handled
control = extract({'US': 2 ** 31 - 1, 'GB': 120000, 'FR': 95000})
assert all(any(re.fullmatch(r, s) for r in control) for s in ('US', 'GB', 'FR'))

if problems:
    print('C03 VIOLATED')
    for p in problems:
        print('  ' + p)
    print('  (control: counts up to 2**31 - 1 give %r)' % control)
    sys.exit(1)
print('C03 ok')
sys.exit(0)
