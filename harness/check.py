"""bin/check <Cxx> quick|thorough [--replay file]"""
import importlib
import json
import os
import sys
import traceback

sys.path.insert(0, os.path.dirname(os.path.abspath(__file__)))
import lib


def main():
    args = sys.argv[1:]
    prop = args[0]
    replay = None
    tier = 'quick'
    i = 1
    while i < len(args):
        if args[i] == '--replay':
            replay = args[i + 1]
            i += 2
        else:
            tier = args[i]
            i += 1
    tier = os.environ.get('VERIF_TIER', tier)
    if tier not in ('quick', 'thorough'):
        tier = 'quick'
    seed = int(os.environ.get('VERIF_SEED', '0') or 0)
    # a check must never hang: dump the stack and exit if it runs absurdly long
    import faulthandler
    faulthandler.dump_traceback_later(1500 if tier == 'quick' else 6 * 3600, exit=True)
    ctx = lib.Ctx(prop, tier, seed)
    mod = importlib.import_module('props.' + prop.lower())
    if replay:
        data = json.load(open(replay))
        return mod.replay(ctx, data)
    import time as _t
    _t0 = _t.time()
    _tr = lambda w: os.environ.get('VERIF_TRACE_CALLS') and sys.stderr.write('[phase] %s %.1fs\n' % (w, _t.time() - _t0))
    info = lib.build()
    _tr('build')
    proof = lib.check_props_file(prop)
    _tr('props')
    proof['checker_cmd'] = ('cd coq && make -k -j16 (coq_makefile, full .vo) && '
                            'coqc -R . Tdda Props/%s.v (Print Assumptions per theorem)' % prop)
    if info['translator_error']:
        proof['broken'].append('translator (gen/extract_consts.py) failed closed: ' +
                               info['translator_error'][-600:])
        proof['discharged'] = 0
    if info['gate']:
        proof['broken'].append('forbidden construct in coq/: ' + '; '.join(info['gate'][:5]))
        proof['discharged'] = 0
    if info['make_rc'] != 0:
        errs = [l for l in info['log'].split('\n') if 'Error' in l or l.startswith('File ')]
        proof['broken'].append('coq build (make) failed: ' + ' | '.join(errs[:6])[:800])
    if tier == 'thorough' and not proof['broken']:
        rc, out = lib.sh('timeout 1700 coqchk -silent -o -R . Tdda Tdda.Props.%s 2>&1' % prop, cwd=lib.COQ, timeout=1800)
        summary = out[out.rfind('CONTEXT SUMMARY'):] if 'CONTEXT SUMMARY' in out else out[-1500:]
        ctx.extra['coqchk'] = {'exit': rc, 'summary': summary[-2500:]}
        # coqchk exits 0 only when every module and everything it depends on re-checked; its summary must list no
        # unsafe (co)fixpoints, type-in-type or assumed positivity
        clean = all(('%s: <none>' % k) in summary for k in
                    ('relying on type-in-type', 'relying on unsafe (co)fixpoints', 'whose positivity is assumed'))
        if rc != 0 or 'CONTEXT SUMMARY' not in out or not clean:
            proof['broken'].append('coqchk did not confirm Props/%s.vo (exit %s): %s' % (prop, rc, out[-300:]))
    ctx.model_ok = info['ok_model']
    if not info['ok_model']:
        proof['broken'].append('extracted model did not build; correspondence not run')
    _tr('before run')
    try:
        mod.run(ctx)
    except Exception:
        tb = traceback.format_exc()
        print(tb)
        proof['broken'].append('harness error: ' + tb[-800:])
    _tr('run done')
    try:
        run_witnesses(ctx)
    except Exception:
        tb = traceback.format_exc()
        print(tb)
        proof['broken'].append('harness error (witnesses): ' + tb[-800:])
    _tr('witnesses done')
    return ctx.finish(proof)


def run_witnesses(ctx):
    """Listed findings that carry a witness program (findings/<id>.py: exits 1 and prints the violation when it
    reproduces on the tree under test, 0 when it does not): each is replayed on every run.  A witness that
    reproduces is reported as its KNOWN-FINDING; one that no longer does is silent (the defect has gone);
    a witness that crashes is a harness error, not a finding."""
    import subprocess
    env = dict(os.environ, PYTHONPATH=lib.REPO, PYTHONHASHSEED='0', PYTHONDONTWRITEBYTECODE='1')
    ran = {}
    for f in ctx.known:
        w = f.get('witness_script')
        if not w:
            continue
        path = os.path.join(lib.VERIF, 'findings', w)
        tmpd = os.path.join(lib.WORK, 'tmp')
        os.makedirs(tmpd, exist_ok=True)
        p = subprocess.run([lib.PY, path], cwd=tmpd, env=dict(env, TMPDIR=tmpd), stdout=subprocess.PIPE,
                           stderr=subprocess.STDOUT, text=True, errors='replace', timeout=600)
        ran[f['id']] = p.returncode
        ctx.count(('witness', f['id']), True)
        if p.returncode == 1 and 'VIOLATED' in p.stdout:
            ctx.known_hits[f['id']] = ctx.known_hits.get(f['id'], 0) + 1
        elif p.returncode != 0:
            raise RuntimeError('witness %s ended with status %s: %s' % (w, p.returncode, p.stdout[-400:]))
    # witnesses of defects that were REPAIRED (known_findings.json "regressions"): if one reproduces again it is a
    # violation like any other, with the witness program as its replay
    for f in lib.load_known().get('regressions', []):
        if f.get('property') != ctx.prop:
            continue
        path = os.path.join(lib.VERIF, 'findings', f['witness_script'])
        tmpd = os.path.join(lib.WORK, 'tmp')
        os.makedirs(tmpd, exist_ok=True)
        p = subprocess.run([lib.PY, path], cwd=tmpd, env=dict(env, TMPDIR=tmpd), stdout=subprocess.PIPE,
                           stderr=subprocess.STDOUT, text=True, errors='replace', timeout=600)
        ran[f['id']] = p.returncode
        ctx.count(('regression-witness', f['id']), True)
        if p.returncode == 1 and 'VIOLATED' in p.stdout:
            ctx.fail({'witness_program': 'findings/' + f['witness_script'], 'output': p.stdout[-1500:]},
                     'a repaired defect is back (%s): %s' % (f.get('commit', ''), f['what']))
        elif p.returncode != 0:
            raise RuntimeError('witness %s ended with status %s: %s' % (f['witness_script'], p.returncode, p.stdout[-400:]))
    if ran:
        ctx.extra['witness_programs'] = ran


if __name__ == '__main__':
    sys.exit(main())
