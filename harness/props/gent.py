"""Shared by C11 / C12: sandboxed runs of the real `tdda gentest` on generated deterministic shell commands,
runs of the generated test script, and the abstraction of a command's behaviour for the Coq model
(Gentest/Script.v)."""
import ast
import concurrent.futures
import datetime
import hashlib
import json
import os
import re
import shutil
import subprocess
import sys

import lib

PY = '/venv/bin/python'
REPO = lib.REPO

TEXT_LINES = [
    'hello world', 'version 10.2.0', 'built 31/02/2020 ok', 'done 29.02.2020', 'x = 1.2.0', 'a "quoted" \'word\'',
    'back\\slash \\d+ \\n', 'regex chars ^$.*+?()[]{}|', 'tab\there', 'caf\u00e9 \u4e2d\u6587 \u00b2', 'C:\\Users\\demo', '100%',
    '', '   indented', 'trailing   ', 'a{2}', "it's", '"""triple"""', "'''triple'''", 'Jan 5, 2021 was a day',
    '12:30:45 time', '2020-01-15 10:11:12', '5 feb 2021', '$HOME/x', 'a\\', 'line with # hash', '--flag=value',
    '12 Sept 2019', 'Sept 3, 2021 14:05:09', 'July 4, 2020 was hot', 'on 1 sept 2021', '30 June 2022 09:08:07', 'Mar 5 2020',
    '\u00c5ngstr\u00f6m 5 \u03a9', 'na\u00efve r\u00e9sum\u00e9',
    # separators that str.splitlines() knows and file iteration does not (paginated reports, old line printers)
    'page 1\x0cpage 2', 'vt\x0bhere', 'nel\x85x', 'ls\u2028sep ps\u2029end', 'fs\x1cgs\x1drs\x1e.',
]

FILE_NAMES = ['out.txt', 'data.bin', 'a b2', 'a-b', 'a_b', 'stdout', 'stderr', 'exit_code', 'report-v1.txt',
              'report_v1.txt', 'x\u00b2.txt', 'caf\u00e9.txt', 'UPPER.TXT', 'no_ext', 'd.e.f.txt', '1start.txt', '2', '3',
              'out[1].txt', 'data[v2].txt', 'set{a,b}.txt']


def sh_quote(s):
    return "'" + s.replace("'", "'\"'\"'") + "'"


def printf_line(s):
    return 'printf %s ' + sh_quote('%s\n') + ' ' + sh_quote(s) if False else "printf '%s\\n' " + sh_quote(s)


def gen_behaviour(rng, cwd_marker=True):
    """A deterministic behaviour: stdout lines, stderr lines, exit code, files {name: (text?, bytes)}."""
    out = [rng.choice(TEXT_LINES) for _ in range(rng.randint(0, 6))]
    err = [rng.choice(TEXT_LINES) for _ in range(rng.choice([0, 0, 1, 3]))]
    if rng.random() < 0.3:
        out.append('today is %s' % datetime.date.today().isoformat())
    if rng.random() < 0.2:
        # today's date written with a two-digit year: not a date for gentest (years 0026 / 0029 are nowhere near the run)
        t_ = datetime.date.today()
        out.append(rng.choice(['run %s total=5', 'batch %s ok', '%s']) % t_.strftime(rng.choice(['%d/%m/%y', '%y-%m-%d', '%d.%m.%y'])))
    if cwd_marker and rng.random() < 0.3:
        out.append('running in @CWD@ now')
    files = {}
    for nm in rng.sample(FILE_NAMES, rng.choice([0, 1, 2, 3, 4])):
        if nm.endswith('.bin') or (not nm.lower().endswith('.txt') and rng.random() < 0.3):
            # binary payload, long enough for content sniffing to be clear about it
            files[nm] = (False, b'\x89BIN\r\n\x1a\n\x00\x00' + bytes(rng.randrange(256) for _ in range(rng.randint(300, 600))))
        else:
            lines = [rng.choice(TEXT_LINES) for _ in range(rng.randint(0, 5))]
            text = '\n'.join(lines) + ('\n' if lines and rng.random() < 0.8 else '')
            r = rng.random()
            if r < 0.75:
                data = text.encode('utf-8')
            elif r < 0.85:
                # Latin-1 bytes only
                data = ('Andr\u00e9 lives in K\u00f6ln\n' + text).encode('latin-1', errors='replace')
            elif r < 0.88:
                data = b'\xef\xbb\xbf' + text.encode('utf-8')
            elif r < 0.93 and text:
                data = text.encode('utf-16')          # UTF-16 with its byte-order mark
            else:
                # a UTF-8 byte-order mark followed later by a Latin-1 byte: the encoding first guessed cannot decode it
                data = b'\xef\xbb\xbfname,city\n' + text.encode('ascii', errors='replace') + b'Andr\xe9,Paris\n'
            files[nm] = (True, data)
    code = rng.choice([0, 0, 0, 3, 1])
    return {'out': out, 'err': err, 'files': files, 'code': code, 'final_newline': rng.random() < 0.85}


def write_command(d, beh):
    """cmd.sh reproduces the behaviour exactly (file payloads are stored next to it under payload/)."""
    pay = os.path.join(d, '.payload')
    shutil.rmtree(pay, ignore_errors=True)
    os.makedirs(pay)
    lines = ['#!/bin/sh']
    n = len(beh['out'])
    for i, l in enumerate(beh['out']):
        l = l.replace('@CWD@', d)
        last = i == n - 1
        fmt = "'%s\\n'" if (not last or beh['final_newline']) else "'%s'"
        lines.append('printf %s %s' % (fmt, sh_quote(l)))
    for l in beh['err']:
        lines.append("printf '%%s\\n' %s 1>&2" % sh_quote(l))
    for i, (nm, (text, data)) in enumerate(sorted(beh['files'].items())):
        with open(os.path.join(pay, 'f%d' % i), 'wb') as f:
            f.write(data)
        target = os.path.join(d + '_out', nm) if nm in beh.get('sibling', ()) else os.path.join(d, 'outdir', nm)
        if nm in beh.get('link', ()):
            # the output is a symbolic link (absolute target) to a file the command rewrites: latest -> store/<name>
            store = os.path.join(d, 'store')
            lines.append('mkdir -p %s' % sh_quote(store))
            lines.append('cp %s %s' % (sh_quote(os.path.join(pay, 'f%d' % i)), sh_quote(os.path.join(store, nm))))
            lines.append('ln -sf %s %s' % (sh_quote(os.path.join(store, nm)), sh_quote(os.path.join(d, 'outdir', nm))))
            continue
        if nm in beh.get('tmp', ()):
            # written under $TMPDIR (gentest points it at a directory of its own and tracks what appears there)
            lines.append('cp %s "$TMPDIR"/%s' % (sh_quote(os.path.join(pay, 'f%d' % i)), sh_quote(nm)))
            continue
        lines.append('cp %s %s' % (sh_quote(os.path.join(pay, 'f%d' % i)), sh_quote(target)))
        if nm in beh.get('stamp', ()):
            # a command that gives its output a fixed modification time (reproducible builds, cp -p, archive extraction)
            lines.append('touch -d @1500000000 %s' % sh_quote(target))
        if nm in beh.get('both', ()):
            # the same base name is also written in the main output directory (with other content)
            with open(os.path.join(pay, 'g%d' % i), 'wb') as f:
                f.write(b'second copy\n' + data if text else data + b'\x02')
            lines.append('cp %s %s' % (sh_quote(os.path.join(pay, 'g%d' % i)), sh_quote(os.path.join(d, 'outdir', nm))))
    lines.append('exit %d' % beh['code'])
    with open(os.path.join(d, 'cmd.sh'), 'w', encoding='utf-8') as f:
        f.write('\n'.join(lines) + '\n')


def tmp_for(d):
    """the temporary directory of one sandbox: beside it, not inside it (as /tmp is not inside a working directory)"""
    return os.path.join(os.path.dirname(d), '.tmp-' + os.path.basename(d))


def env_for(d):
    env = dict(os.environ, PYTHONPATH=REPO, PYTHONHASHSEED='0', PYTHONDONTWRITEBYTECODE='1', TMPDIR=tmp_for(d),
               TDDA_FAIL_DIR=tmp_for(d), LC_ALL='C.UTF-8', LANG='C.UTF-8')
    env.pop('TMPDIR_SET_BY_GENTEST', None)
    os.makedirs(tmp_for(d), exist_ok=True)
    return env


def snapshot(d, skip=('.tmp', '.payload')):
    snap = {}
    for root, dirs, files in os.walk(d):
        dirs[:] = [x for x in dirs if x not in skip and x != '__pycache__']
        for f in files:
            p = os.path.join(root, f)
            with open(p, 'rb') as fh:
                snap[os.path.relpath(p, d)] = hashlib.sha1(fh.read()).hexdigest()
    return snap


CMD_ARGS = ['', '', '', ' "C:\\Users\\demo"', " 'a\\x b\\N c'", ' "it\'s"', " '%s %(x)s 100%'", ' \'say "hi"\'', " 'tab\\there'",
            ' # a comment', " 'caf\u00e9'"]


def gen_command(rng):
    """the shell command line: cmd.sh ignores its arguments, but they appear in the generated script"""
    return 'sh cmd.sh' + rng.choice(CMD_ARGS)


OFFLINE = ('import socket\n'
           'def _unresolvable(*a, **k):\n'
           '    raise socket.gaierror(-2, "Name or service not known")\n'
           'socket.gethostbyname = _unresolvable\n')


def run_gentest(d, script='test_cmd.py', flags=(), refs=('outdir',), command='sh cmd.sh', offline=False):
    """offline=True: generation happens on a machine whose own host name does not resolve (a laptop off the
    network, a container without an /etc/hosts entry)"""
    cmd = [PY, '-c', (OFFLINE if offline else '') +
           'import sys; from tdda.referencetest.gentest import gentest_wrapper; gentest_wrapper(sys.argv[1:])']
    cmd += list(flags) + [command, script] + list(refs)
    p = subprocess.run(cmd, cwd=d, env=env_for(d), stdout=subprocess.PIPE, stderr=subprocess.STDOUT, text=True,
                       errors='replace', timeout=300)
    return p.returncode, p.stdout


def run_script(d, script):
    for attempt in range(3):
        p = subprocess.run([PY, script, '-v'], cwd=d, env=env_for(d), stdout=subprocess.PIPE, stderr=subprocess.STDOUT,
                           text=True, errors='replace', timeout=300)
        if p.returncode >= 0:
            break       # a negative status is death by signal (an abort at interpreter teardown under load): run it again
    results = {}
    for m in re.finditer(r'^(test_\w+) \(', p.stdout, flags=re.M):
        results.setdefault(m.group(1), 'ok')
    for m in re.finditer(r'^(FAIL|ERROR): (test_\w+) \(', p.stdout, flags=re.M):
        results[m.group(2)] = m.group(1)
    if not re.search(r'^Ran \d+ tests?', p.stdout, flags=re.M):
        results = {}
    return p.returncode, results, p.stdout


def script_tests(path):
    """{test method name: {'kind': 'String'|'TextFile'|'BinaryFile', 'target': 'stdout'|'stderr'|file name,
    'substrings': [...], 'patterns': [...], 'removals': [...]}} parsed from the generated script."""
    src = open(path, encoding='utf-8').read()
    tree = ast.parse(src)
    out = {}
    dup = []
    for cls in [n for n in tree.body if isinstance(n, ast.ClassDef)]:
        seen = set()
        for fn in [n for n in cls.body if isinstance(n, ast.FunctionDef)]:
            if fn.name in seen:
                dup.append(fn.name)
            seen.add(fn.name)
            if not fn.name.startswith('test_') or fn.name in ('test_no_exception', 'test_exit_code'):
                continue
            info = {'substrings': [], 'patterns': [], 'removals': []}
            for st in fn.body:
                if isinstance(st, ast.Assign) and isinstance(st.targets[0], ast.Name) and st.targets[0].id in info:
                    vals = []
                    for e in st.value.elts:
                        vals.append(e.value if isinstance(e, ast.Constant) else '<orig_tmpdir>')
                    info[st.targets[0].id] = vals
                if isinstance(st, ast.Expr) and isinstance(st.value, ast.Call):
                    info['kind'] = st.value.func.attr.replace('assert', '').replace('Correct', '')
                    a0 = st.value.args[0]
                    info['actual'] = ast.unparse(a0)
                    info['ref'] = ast.unparse(st.value.args[1])
            out[fn.name] = info
    return out, dup


def mutate_behaviour(rng, beh, kind):
    """the command later behaves differently in exactly one aspect"""
    new = json.loads(json.dumps({k: v for k, v in beh.items() if k != 'files'}))
    new['files'] = dict(beh['files'])
    import unicodedata
    respell = lambda t: unicodedata.normalize('NFD', t)       # another spelling of the same characters: other text
    if kind == 'stdout' and rng.random() < 0.35 and any(respell(l) != l for l in new['out']):
        i = rng.choice([j for j, l in enumerate(new['out']) if respell(l) != l])
        new['out'][i] = respell(new['out'][i])
    elif kind == 'stderr' and rng.random() < 0.35 and any(respell(l) != l for l in new['err']):
        i = rng.choice([j for j, l in enumerate(new['err']) if respell(l) != l])
        new['err'][i] = respell(new['err'][i])
    elif kind == 'stdout':
        if new['out'] and rng.random() < 0.7:
            i = rng.randrange(len(new['out']))
            new['out'][i] = new['out'][i] + ' CHANGED'
        else:
            new['out'].append('an extra line')
    elif kind == 'stderr':
        new['err'] = new['err'] + ['something new on stderr']
    elif kind == 'exit':
        new['code'] = beh['code'] + 1
    elif kind.startswith('file:'):
        nm = kind[5:]
        text, data = new['files'][nm]
        if text and rng.random() < 0.35:
            try:
                t0 = data.decode('utf-8')
                if respell(t0) != t0:
                    new['files'][nm] = (text, respell(t0).encode('utf-8'))
                    return new
            except UnicodeDecodeError:
                pass
        same_size = [k_ for k_, b_ in enumerate(data) if 48 <= b_ <= 57 or 97 <= b_ <= 122]
        if same_size and (rng.random() < 0.4 or nm in beh.get('stamp', ())):
            # one character altered, the size kept (VALUE=1 -> VALUE=2)
            k_ = rng.choice(same_size)
            b_ = data[k_]
            nb_ = (b_ - 48 + 1) % 10 + 48 if b_ <= 57 else (b_ - 97 + 1) % 26 + 97
            new['files'][nm] = (text, data[:k_] + bytes([nb_]) + data[k_ + 1:])
            return new
        new['files'][nm] = (text, (data + (b'CHANGED\n' if text else b'\x01')) if rng.random() < 0.6 or not data
                            else (bytes([data[0] ^ 1]) + data[1:] if not text else b'X' + data))
    elif kind.startswith('missing:'):
        del new['files'][kind[8:]]
    return new


def abstract_outputs(d, beh):
    out = ''.join(l.replace('@CWD@', d) + '\n' for l in beh['out'])
    if beh['out'] and not beh['final_newline']:
        out = out[:-1]
    err = ''.join(l + '\n' for l in beh['err'])
    return out, err


def pmap(fn, items, workers=16):
    with concurrent.futures.ThreadPoolExecutor(max_workers=workers) as ex:
        return list(ex.map(fn, items))
