import io
import contextlib
"""C03 - every example string is matched by one of the regular expressions rexpy returns.
Layers: (K1) character level - the model's category semantics / regex texts / coarse and fine classification /
escape / escaped_bracket vs the real Categories and CPython re over a sweep of code points; (K2) the extracted
model of the whole Extractor (Rexpy/Pipeline.v), replaying the recorded oracle tables (group splits, matches,
sample choices) of each real run, must return exactly the same expressions and working examples; (S) the property
itself: every example an option does not discard is matched by one of the returned expressions (list, frequency
dictionary, extract(), pandas columns)."""
import itertools
import re
import warnings

import lib
from props import rex as R
from props import rexmodel as M

warnings.filterwarnings('ignore', category=FutureWarning)


def check_covered(ctx, case, arg, opts, rexes):
    want = R.cleaned(arg, opts)
    try:
        missed = R.unmatched(rexes, list(want.keys()))
    except re.error as e:
        ctx.fail(case, 'returned expression does not compile: %s (%r)' % (e, rexes))
        return
    for s in missed:
        cls = R.finding_class(s, opts)
        ctx.fail(dict(case, unmatched=s), 'example %r is matched by none of the returned expressions %r' % (s, rexes),
                 finding=cls)
    if opts.get('strip') and not missed:
        # with stripping the expressions allow surrounding white space, so the strings as given match too
        for s in R.unmatched(rexes, R.originals_kept(arg, opts)):
            ctx.fail(dict(case, unmatched=s), 'example %r (as given, before stripping) is matched by none of the returned '
                     'expressions %r' % (s, rexes), finding=R.finding_class(s, opts))


def run(ctx):
    rng = ctx.rng
    import tdda.rexpy.rexpy as rx
    M.char_sweeps(ctx, full=not ctx.quick)
    M.escape_sweep(ctx, 300 if ctx.quick else 3000)
    n = 700 if ctx.quick else 30000
    cases = []
    # corpus first: inputs that exposed defects or were missed by earlier versions of this check
    drift = ['', '$5', 'Qab', '-', 'a1 ' * 50, 'A1B2', 'US$5', '$7', 'c^3', '3-^3', 'CA$9', '3-^3', 'A1B2', 'A1B2', '(a1)+']
    drift_size = dict(do_all=3, do_all_exceptions=2, max_punc_in_group=5, max_sampled_attempts=2,
                      max_strings_in_group=10, n_per_length=64)
    corpus = [
        (['^-', '-^', '^', '-'], {'dialect': 'perl'}, None, None),
        (['a^', 'b-', 'c^', 'd-', 'e^'], {}, {'max_punc_in_group': 5}, None),
        (['x' * 3, 'y' * 9, 'abc\n', ' a ', '', 'a\nb'], {'strip': True}, None, None),
        # found by the thorough tier: a string matched after the last sampled attempt stops being matched once the
        # failures of that check are added (the refined class narrows from letters to hex digits)
        (drift, {'dialect': 'perl', 'remove_empties': True, 'variableLengthFrags': True}, drift_size, 18),
        (drift, {'dialect': 'perl', 'remove_empties': True, 'variableLengthFrags': True}, drift_size, 24),
    ]
    stream = [('corpus', arg, opts, size, seed) for arg, opts, size, seed in corpus]
    stream += [M.gen_case(rng, R) for _ in range(n)]
    for form, arg, opts, size, seed in stream:
        case = {'form': form, 'examples': repr(arg)[:2000], 'opts': opts, 'size': size, 'seed': seed}
        x, rec = M.run_impl(arg, opts, size, seed)
        ctx.count(repr(case), True)
        ctx.bump('form.' + form)
        if isinstance(x, Exception):
            ctx.fail(case, 'Extractor raised %s: %s' % (type(x).__name__, str(x)[:200]))
            continue
        rexes = list(x.results.rex) if x.results else []
        ctx.bump('samples_drawn.%d' % min(len(rec.samples), 3))
        ctx.bump('passes.%d' % min(len(rec.rex_lists) - 1, 4))
        ctx.bump('nrex.%d' % min(len(rexes), 5))
        ctx.bump('dialect.' + opts.get('dialect', 'portable'))
        check_covered(ctx, case, arg, opts, rexes)
        cases.append((case, arg, opts, size, x, rec))
        if len(ctx.cov['samples']) < 3:
            ctx.sample({'case': case, 'rex': rexes})
    M.compare_with_model(ctx, cases)
    M.check_oracle_hypotheses(ctx, cases)
    M.check_regex_model(ctx, cases)
    # other entry points: extract() and pdextract (pandas columns)
    import pandas as pd
    for it in range(60 if ctx.quick else 2000):
        ex = R.gen_examples(rng)
        opts = R.gen_opts(rng)
        case = {'form': 'extract()', 'examples': repr(ex)[:2000], 'opts': opts}
        try:
            with contextlib.redirect_stdout(io.StringIO()):
                rexes = rx.extract(list(ex), **opts)
        except Exception as e:
            ctx.fail(case, 'extract raised %s: %s' % (type(e).__name__, str(e)[:200]))
            continue
        ctx.count(repr(case), True)
        check_covered(ctx, case, ex, opts, rexes)
        if it % 5 == 0:
            # strings that differ only after an embedded NUL: each is an example of its own, in a column as in a list
            ex = list(ex) + rng.choice([['id\x00A17', 'id\x00B2931', 'id\x00C5'], ['abc', 'abc\x00'], ['k\x00', 'k\x00\x00x']])
        cols = [pd.Series(ex[:len(ex) // 2] + [None], dtype=object), pd.Series(ex[len(ex) // 2:], dtype=object)]
        case = {'form': 'pdextract', 'examples': repr(ex)[:2000]}
        try:
            rexes = rx.pdextract(cols, seed=rng.choice([None, 7]))
        except Exception as e:
            ctx.fail(case, 'pdextract raised %s: %s' % (type(e).__name__, str(e)[:200]))
            continue
        ctx.count(repr(case), True)
        check_covered(ctx, case, ex, {}, rexes)
        ctx.bump('form.extract+pdextract')
    # the extend loop under sampling: families whose refinement narrows as examples are added (R.gen_drift), many seeds
    for it in range(2500 if ctx.quick else 60000):
        ex, size = R.gen_drift(rng)
        size.update(max_punc_in_group=5, max_strings_in_group=10)
        opts = R.gen_opts(rng)
        seed = rng.randrange(1000)
        case = {'form': 'drift', 'examples': repr(ex)[:2000], 'opts': opts, 'size': size, 'seed': seed}
        try:
            with contextlib.redirect_stdout(io.StringIO()):
                rexes = rx.extract(list(ex), size=rx.Size(**size), seed=seed, **opts)
        except Exception as e:
            ctx.fail(case, 'extract raised %s: %s' % (type(e).__name__, str(e)[:200]))
            continue
        ctx.cov['evaluations'] += 1
        if it < 200:
            ctx.count(repr(case), True)
        check_covered(ctx, case, ex, opts, rexes)
    ctx.bump('form.drift-sweep')
    if not ctx.quick:
        # small-scope exhaustive: every multiset of <= 3 strings of length <= 2 over a 7-character alphabet
        alpha = ['a', 'B', '1', '-', '^', ' ', 'é']
        strings = [''.join(p) for k in (0, 1, 2) for p in itertools.product(alpha, repeat=k)]
        for k in (1, 2, 3):
            for combo in itertools.combinations(strings, k):
                for opts in ({}, {'dialect': 'perl', 'tag': True}, {'strip': True, 'remove_empties': True}):
                    rexes = rx.extract(list(combo), **opts)
                    ctx.cov['evaluations'] += 1
                    check_covered(ctx, {'form': 'exhaustive', 'examples': repr(combo), 'opts': opts}, list(combo), opts, rexes)
    ctx.cov['rule'] = ('example multisets (repeats, aligned families, regex metacharacters, all \\s characters, non-ASCII '
                       'letters / decimals / digit-likes, >99-run strings) as list / frequency dict (zero counts, nulls) / '
                       'extract() / pandas columns x tag, strip, remove_empties, extra_letters, variableLengthFrags, '
                       'dialect x Size settings that force sampling and the extend loop x seeds')
    ctx.assumptions += ['re.match / group splits / random.sample choices of each real run are recorded and replayed to the '
                        'Coq model as oracle tables', 'CPython re decides "matched" (RE_FLAGS = UNICODE|DOTALL, as rexpy)']


def replay(ctx, data):
    import tdda.rexpy.rexpy as rx
    case = data.get('case', {})
    print(data.get('what'))
    try:
        arg = eval(case['examples'])
        size = rx.Size(**case['size']) if case.get('size') else None
        got = rx.extract(arg, size=size, seed=case.get('seed'), **case.get('opts', {}))
        print('expressions now:', got)
        print('unmatched now:', R.unmatched(got, list(R.cleaned(arg, case.get('opts', {})).keys())))
    except Exception as e:
        print('replay raised', type(e).__name__, e)
    return 0
