"""C07 - discovery reports exact statistics of the data (constraints are tight).
discover_df on generated frames vs Constraints/Model.v (discover) and vs a direct statement of the
property; the SQLite side (discover_db_table) is exercised on the column types SQLite can hold."""
import contextlib
import datetime
import io
import math
import os
import shutil
import sqlite3

import lib
from lib import dstr, dstrs, dopt
from props import cons as C
from props import textcmp as T

NAMES = ['f0', 'a b', 'é', 'F_3', 'x.y', 'n', ' lead', 'trail ', 'tab\tend\t']   # (names with blanks at either end are names too)


def gen_frame_cols(rng):
    n = rng.choice([0, 1, 2, 3, 5, 8, 23, 30])
    cols = {}
    for nm in rng.sample(NAMES, rng.randint(1, 3)):
        t = rng.choice(['bool', 'int', 'real', 'string', 'date', 'string', 'int'])
        if t == 'string' and rng.random() < 0.5:
            # category-count boundary: 19, 20, 21 distinct values
            k = rng.choice([1, 2, 19, 20, 21, 25])
            pool = ['v%02d' % i for i in range(k)]
            cells = [None if rng.random() < 0.1 else pool[i % k] for i in range(max(n, rng.choice([k, k, k + 3])))]
            rng.shuffle(cells)
            col = C.normalise_column({'type': 'string', 'cells': cells, 'variant': rng.choice(['object', 'category', 'category+'])})
            n = len(cells)
        else:
            col = C.gen_column(rng, t=t, n=n)
        cols[nm] = col
    # equalise lengths
    m = max(len(c['cells']) for c in cols.values())
    for c in cols.values():
        while len(c['cells']) < m:
            c['cells'].append(c['cells'][len(c['cells']) % max(1, len(c['cells']))] if c['cells'] else None)
    return {k: C.normalise_column(v) for k, v in cols.items()}


def spec_discover(col):
    """The property, stated directly on the abstract column."""
    t = col['type']
    cells = col['cells']
    vals = [c for c in cells if c is not None]
    out = {'type': t}
    if not cells:
        return out
    nnull = len(cells) - len(vals)
    if t != 'string' and vals:
        key = C._cmp_key
        out['min'] = min(vals, key=key)
        out['max'] = max(vals, key=key)
        if t != 'date':
            ks = [key(v) for v in vals]
            if all(k == 0 for k in ks):
                out['sign'] = 'zero'
            elif all(k > 0 for k in ks):
                out['sign'] = 'positive'
            elif all(k >= 0 for k in ks):
                out['sign'] = 'non-negative'
            elif all(k < 0 for k in ks):
                out['sign'] = 'negative'
            elif all(k <= 0 for k in ks):
                out['sign'] = 'non-positive'
    if t == 'string' and vals:
        out['min_length'] = min(len(v) for v in vals)
        out['max_length'] = max(len(v) for v in vals)
    if nnull < 2:
        out['max_nulls'] = nnull
    if t in ('string', 'int', 'date', 'bool') and len(vals) > 1 and len(set(C._cmp_key(v) for v in vals)) == len(vals):
        out['no_duplicates'] = True
    if t == 'string' and 1 <= len(set(vals)) <= 20:
        out['allowed_values'] = sorted(set(vals))
    return out


def canon_value(v):
    """Comparable form of a discovered value (exact numbers, microseconds for dates)."""
    if isinstance(v, str):
        m = None
        try:
            from tdda.constraints.base import get_date
            m = get_date(v)
        except Exception:
            pass
        if isinstance(m, datetime.datetime):
            return ('date', C.micros(m))
        return ('str', v)
    if isinstance(v, (datetime.datetime, datetime.date)):
        return ('date', C.micros(v))
    if isinstance(v, bool):
        return ('num', int(v))
    if isinstance(v, (int, float)):
        if isinstance(v, float) and math.isinf(v):
            return ('inf', v > 0)
        from fractions import Fraction
        return ('num', Fraction(v))
    if hasattr(v, 'item'):
        return canon_value(v.item())
    return ('other', repr(v))


def canon_dict(d, date_field=False):
    out = {}
    for k, v in d.items():
        if k in ('min', 'max'):
            if isinstance(v, dict):
                v = v.get('value')
            cv = canon_value(v)
            if cv[0] == 'str' and not date_field:
                cv = ('str', v)
            out[k] = cv
        elif k == 'allowed_values':
            out[k] = list(v)
        elif k == 'type':
            out[k] = v
        elif k == 'no_duplicates':
            out[k] = bool(v)
        else:
            out[k] = v if not hasattr(v, 'item') else v.item()
    return out


def model_dict(mo):
    """Decode the model's constraint list into the same canonical dict."""
    if mo == []:
        return None
    out = {}
    for tag, pl in mo[0]:
        kind = [k for k, t in C.KIND_TAG.items() if t == tag][0]
        if pl == []:
            out[kind] = None
            continue
        v = pl[0]
        if kind == 'type':
            out[kind] = C.CODE_TYPE[v[0]]
        elif kind in ('min', 'max'):
            w = C.dec_value(v)
            if isinstance(w, tuple):
                out[kind] = ('date', w[1])
            elif isinstance(w, float):
                out[kind] = ('inf', w > 0)
            elif isinstance(w, str):
                out[kind] = ('str', w)
            else:
                out[kind] = ('num', w)
        elif kind == 'sign':
            out[kind] = C.SIGNS[v]
        elif kind == 'no_duplicates':
            out[kind] = bool(v)
        elif kind == 'allowed_values':
            out[kind] = dstrs(v)
        else:
            out[kind] = v
    return out


def run(ctx):
    rng = ctx.rng
    from tdda.constraints import discover_df
    n = 700 if ctx.quick else 20000
    frames = [gen_frame_cols(rng) for _ in range(n)]
    payloads, index = [], []
    for i, cols in enumerate(frames):
        for nm, col in cols.items():
            payloads.append((C.enc_column(col), []))
            index.append((i, nm))
    mouts = ctx.model.call_many(10, payloads) if ctx.model_ok else [None] * len(payloads)
    mres = dict(zip(index, mouts))
    for i, cols in enumerate(frames):
        df = C.frame_of(cols)
        case = {n_: {'type': c['type'], 'variant': c['variant'], 'cells': [repr(x) for x in c['cells']]}
                for n_, c in cols.items()}
        ctx.count(repr(case), any(c['cells'] for c in cols.values()))
        for c in cols.values():
            ctx.bump('col.%s.%s' % (c['type'], c['variant']))
            ctx.bump('rows.%s' % (len(c['cells']) if len(c['cells']) < 9 else '9+'))
        err = io.StringIO()
        try:
            df_in = df.copy()
            with contextlib.redirect_stderr(err), contextlib.redirect_stdout(err):
                cs = discover_df(df_in, inc_rex=False)
            got = cs.to_dict()['fields'] if cs is not None else {}
            if i % 4 == 0:
                # the caller's frame is left as it was, and discovering again from it gives the same constraints
                with contextlib.redirect_stderr(err), contextlib.redirect_stdout(err):
                    cs_b = discover_df(df_in, inc_rex=False)
                got_b = cs_b.to_dict()['fields'] if cs_b is not None else {}
                same_frame = list(df_in.columns) == list(df.columns) and [str(t) for t in df_in.dtypes] == [str(t) for t in df.dtypes] \
                    and repr(df_in.to_dict('list')) == repr(df.to_dict('list'))
                if repr(got_b) != repr(got):
                    ctx.fail(case, 'discovering twice from one frame object gives %r and then %r; the frame %s'
                             % (got, got_b, 'is unchanged' if same_frame else 'was changed by discovery'))
        except Exception as e:
            ctx.fail(case, 'discover_df raised %s: %s' % (type(e).__name__, str(e)[:300]))
            continue
        # ---- asking for regular expressions as well adds the rex constraint and changes no other statistic
        if i % 3 == 0:
            try:
                with contextlib.redirect_stderr(err), contextlib.redirect_stdout(err):
                    cs2 = discover_df(df.copy(), inc_rex=True)
                got2 = cs2.to_dict()['fields'] if cs2 is not None else {}
                ctx.bump('with_rex')
                for nm in set(got) | set(got2):
                    a_ = {k_: v_ for k_, v_ in (got.get(nm) or {}).items() if k_ != 'rex'}
                    b_ = {k_: v_ for k_, v_ in (got2.get(nm) or {}).items() if k_ != 'rex'}
                    if repr(a_) != repr(b_):
                        ctx.fail(dict(case, field=nm), 'field %r: discovery with inc_rex=True gives %r, without %r (the other '
                                 'statistics must not depend on it)' % (nm, b_, a_))
            except Exception:
                ctx.bump('with_rex.raised')
        for nm, col in cols.items():
            want = spec_discover(col)
            g = got.get(nm)
            if g is None:
                ctx.fail(dict(case, field=nm), 'nothing discovered for field %r of type %s' % (nm, col['type']))
                continue
            gd = canon_dict(g, date_field=col['type'] == 'date')
            wd = dict(want)
            for k in ('min', 'max'):
                if k in wd:
                    wd[k] = canon_value(wd[k])
            if gd != wd:
                diff = {k: (gd.get(k), wd.get(k)) for k in set(gd) | set(wd) if gd.get(k) != wd.get(k)}
                ctx.fail(dict(case, field=nm),
                         'field %r (%s %s, cells %r): discovered vs data statistics differ on %r'
                         % (nm, col['type'], col['variant'], col['cells'][:12], diff),
                         finding=classify(col, diff))
            mo = mres.get((i, nm))
            if mo is not None and mo != '!stack':
                ctx.cov['traces_validated_against_impl'] += 1
                md = model_dict(mo)
                if md != gd:
                    ctx.mismatch('discover', dict(case, field=nm), repr(md), repr(gd))
        if i < 2:
            ctx.sample({'frame': case, 'discovered': repr(got)[:600]})
    sqlite_layer(ctx, rng)
    ctx.cov['rule'] = ('frames of 1-3 abstract columns over bool/int/real/string/date x dtype variants, 0..30 rows, '
                       'null patterns, 1/2/19/20/21/25 distinct categories, one-signed/mixed/zero data, infinities, '
                       'non-BMP strings; SQLite tables over integer/real/text/boolean columns; non-trivial = has rows')
    ctx.assumptions += ['pandas aggregation (min/max/nunique/str.len) and dtype inference are not modelled: the harness '
                        'abstracts each Series to (type, cells) independently of tdda and compares',
                        'SQLite evaluation of the generated SQL is not modelled']


def classify(col, diff):
    return None


# ---------------------------------------------------------------- SQLite

def sqlite_layer(ctx, rng):
    from tdda.constraints.db.drivers import database_connection
    from tdda.constraints.db.constraints import discover_db_table
    n = 60 if ctx.quick else 1500
    work = T.workdir()
    try:
        for it in range(n):
            path = os.path.join(work, 't%d.db' % it)
            conn = sqlite3.connect(path)
            cols = {}
            nrows = rng.choice([0, 1, 2, 3, 5, 22])
            for nm, t in rng.sample([('i', 'int'), ('r', 'real'), ('s', 'string'), ('b', 'bool')], rng.randint(1, 3)):
                col = C.gen_column(rng, t=t, n=nrows)
                if t == 'real':
                    col['cells'] = [None if c is None or math.isinf(c) else c for c in col['cells']]
                if t == 'int':
                    col['cells'] = [None if c is None else max(-2 ** 62, min(2 ** 62, c)) for c in col['cells']]
                if t == 'string':
                    col['cells'] = [None if c is None else c for c in col['cells']]      # '' stays: a string of length 0, not NULL
                    if col['cells'] and rng.random() < 0.3:
                        # text with embedded NULs (SQLite's LENGTH() stops at the first one; the string does not)
                        col['cells'][rng.randrange(len(col['cells']))] = rng.choice(['ab\x00\x00', '\x00', 'a\x00bcdefghijklmnopqrstuvwxyz'])
                col['cells'] = (col['cells'] + [None] * nrows)[:nrows]
                cols[nm] = col
            decl = {'int': 'integer', 'real': 'real', 'string': 'text', 'bool': 'boolean'}
            conn.execute('create table tbl (%s)' % ', '.join('%s %s' % (nm, decl[c['type']]) for nm, c in cols.items()))
            for r in range(nrows):
                conn.execute('insert into tbl values (%s)' % ','.join('?' * len(cols)),
                             [(None if c['cells'][r] is None else
                               (int(c['cells'][r]) if c['type'] == 'bool' else c['cells'][r])) for c in cols.values()])
            conn.commit()
            conn.close()
            case = {'sqlite': {nm: {'type': c['type'], 'cells': [repr(x) for x in c['cells']]} for nm, c in cols.items()}}
            ctx.count(('sqlite', repr(case)), nrows > 0)
            ctx.bump('sqlite.tables')
            err = io.StringIO()
            try:
                with contextlib.redirect_stderr(err), contextlib.redirect_stdout(err):
                    db = database_connection(dbtype='sqlite', db=path)
                    cs = discover_db_table('sqlite', db, 'tbl', inc_rex=False)
                got = cs.to_dict()['fields'] if cs is not None else {}
            except Exception as e:
                ctx.fail(case, 'discover_db_table raised %s: %s' % (type(e).__name__, str(e)[:300]))
                os.remove(path)
                continue
            for nm, col in cols.items():
                want = spec_discover(col)
                if col['type'] == 'bool':
                    # SQLite stores booleans as integers; tdda reports them as bool with True/False bounds
                    pass
                g = got.get(nm)
                if g is None:
                    ctx.fail(dict(case, field=nm), 'nothing discovered for SQLite field %r' % nm)
                    continue
                gd = canon_dict(g)
                wd = dict(want)
                for k in ('min', 'max'):
                    if k in wd:
                        wd[k] = canon_value(wd[k])
                if gd != wd:
                    diff = {k: (gd.get(k), wd.get(k)) for k in set(gd) | set(wd) if gd.get(k) != wd.get(k)}
                    ctx.fail(dict(case, field=nm), 'SQLite field %r (%s, %r): discovered vs statistics differ on %r'
                             % (nm, col['type'], col['cells'][:10], diff))
            os.remove(path)
    finally:
        shutil.rmtree(work, ignore_errors=True)


def replay(ctx, data):
    print(data.get('what'))
    return 0
