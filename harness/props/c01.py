"""C01 - discovered constraints are satisfied by the data they came from.
End to end: discover_df (rex off/on) -> {dict, .tdda file} -> verify_df / detect_df x repair on/off
on generated frames; plus the model's closure on the same abstract columns (Constraints/Model.v)."""
import contextlib
import datetime
import io
import os
import shutil

import lib
from props import cons as C
from props import textcmp as T
from props.c07 import gen_frame_cols

F_EMPTY_REX = 'c01-empty-frame-rex'
F_TZ = 'c01-tz-aware-dates'
F_STR = 'c01-str-dtypes-not-recognised'
F_NUL = 'c01-nul-strings-merged'
F_DATEOBJ = 'c01-date-objects-file-roundtrip'


def extra_frames(rng):
    """Column kinds outside the abstract-column generator: tz-aware, string extension dtypes."""
    import pandas as pd
    out = []
    out.append(('tz', pd.DataFrame({'t': pd.to_datetime(['2020-01-02 03:04:05', '2021-06-07 08:09:10']).tz_localize('UTC')})))
    out.append(('strdtype', pd.DataFrame({'s': pd.Series(['a', 'bb', None], dtype='str')})))
    out.append(('stringext', pd.DataFrame({'s': pd.Series(['a', 'bb', None], dtype='string')})))
    # long free text (more than 99 runs of word / space / punctuation, so rexpy falls back to '.') with line breaks in it
    t1 = ' '.join('word%d, and-more;' % i for i in range(40)) + '\nsecond line: ' + 'x y ' * 20
    t2 = ' '.join('item %d.' % i for i in range(60)) + '\r\nanother\x85line ' + 'a-b ' * 25
    out.append(('longtext', pd.DataFrame({'notes': pd.Series([t1, t2, t1 + '!', None], dtype=object),
                                          'n': [1, 2, 3, 4]})))
    # two batches stacked without ignore_index: row labels repeat
    b1 = pd.DataFrame({'flag': pd.Series([True, None, False], dtype=object),
                       'day': pd.Series([datetime.date(2020, 1, 2), datetime.date(2021, 3, 4), None], dtype=object),
                       'k': [1, 2, 3]})
    b2 = pd.DataFrame({'flag': pd.Series([None, True, True], dtype=object),
                       'day': pd.Series([datetime.date(2019, 5, 6), None, datetime.date(2022, 7, 8)], dtype=object),
                       'k': [4, 5, 6]})
    out.append(('stacked', pd.concat([b1, b2])))
    out.append(('stacked-nullfirst', pd.concat([b2, b1])))
    # strings that agree up to an embedded NUL character (pandas 3 Series.unique() merges them: a recorded finding)
    out.append(('nul-strings', pd.DataFrame({'c': pd.Series(['a\0b', 'a\0cde', 'zz'], dtype=object)})))
    # object columns whose non-null values are all the same, with None or NaN as the null marker
    import numpy as np
    combos = [(True, None), (False, np.nan), (True, np.nan), ('x', float('nan')), ('x y', pd.NA), ('x', None)]
    for val, null in combos + [(rng.choice([True, False, 'q']), rng.choice([None, np.nan])) for _ in range(2)]:
        cells = [val] * rng.randint(1, 3) + [null] * rng.randint(1, 2) + [val] * rng.randint(0, 2)
        if isinstance(val, str) and rng.random() < 0.5:
            cells.append(val + '2')
        rng.shuffle(cells)
        out.append(('constant-with-nulls %r' % (cells,), pd.DataFrame({'c': pd.Series(cells, dtype=object), 'k': range(len(cells))})))
    return out


def run_one(ctx, df, case, rex, via_file, detect, repair, work, tag=None):
    """Returns None if the property held, else (what, finding)."""
    from tdda.constraints import discover_df, verify_df, detect_df
    err = io.StringIO()
    try:
        with contextlib.redirect_stderr(err), contextlib.redirect_stdout(err):
            cs = discover_df(df.copy(), inc_rex=rex)
    except Exception as e:
        fnd = F_EMPTY_REX if (rex and len(df) == 0 and type(e).__name__ == 'UnboundLocalError') else None
        return ('discover_df(inc_rex=%r) raised %s: %s' % (rex, type(e).__name__, str(e)[:200]), fnd)
    if cs is None:
        return None
    if via_file:
        path = os.path.join(work, 'c.tdda')
        with open(path, 'w', encoding='utf-8') as f:
            f.write(cs.to_json())
        arg = path
    else:
        arg = cs.to_dict()
    try:
        with contextlib.redirect_stderr(err), contextlib.redirect_stdout(err):
            if detect:
                v = detect_df(df.copy(), arg, repair=repair)
            else:
                v = verify_df(df.copy(), arg, repair=repair)
    except Exception as e:
        return ('%s of the frame against its own constraints (%s, repair=%r, rex=%r) raised %s: %s'
                % ('detect_df' if detect else 'verify_df', 'file' if via_file else 'dict', repair, rex,
                   type(e).__name__, str(e)[:200]), None)
    if v.failures != 0:
        bad = {nm: [k for k in C.KINDS if k in fr and fr[k] is False] for nm, fr in v.fields.items()}
        bad = {k: x for k, x in bad.items() if x}
        return ('%d discovered constraint(s) fail on their own data (%s, %s, repair=%r, rex=%r): %r'
                % (v.failures, 'detect' if detect else 'verify', 'file' if via_file else 'dict', repair, rex, bad),
                ('failing', bad))
    if detect and v.detected() is not None:
        return ('detection on the source frame reports failing records', None)
    return None


def run(ctx):
    rng = ctx.rng
    n = 160 if ctx.quick else 6000
    work = T.workdir()
    try:
        frames = [gen_frame_cols(rng) for _ in range(n)]
        # model closure on the same columns (the theorem, exercised through the extracted code)
        payloads, idx = [], []
        for i, cols in enumerate(frames):
            for nm, col in cols.items():
                payloads.append((C.enc_column(col), []))
                idx.append((i, nm))
        mouts = ctx.model.call_many(10, payloads) if ctx.model_ok else []
        vp = []
        for (i, nm), mo in zip(idx, mouts):
            if mo == [] or mo == '!stack':
                continue
            col = frames[i][nm]
            # feed the discovered constraints (wire form, bounds exact) back to the model's verifier
            ks = []
            for tag, pl in mo[0]:
                if tag in (1, 2) and pl:
                    ks.append((tag, [(pl[0], pl[0], 2)]))
                else:
                    ks.append((tag, pl))
            vp.append(((i, nm), (False, [([C.enc_column(col)], ks)])))
        vouts = ctx.model.call_many(9, [p for _, p in vp]) if ctx.model_ok else []
        for ((i, nm), _), vo in zip(vp, vouts):
            if vo != '!stack' and vo[1] != 0:
                ctx.mismatch('model closure', {'col': repr(frames[i][nm])}, vo, 'theorem C01_closure says 0 failures')
        for i, cols in enumerate(frames):
            df = C.frame_of(cols)
            case = {n_: {'type': c['type'], 'variant': c['variant'], 'cells': [repr(x) for x in c['cells']]}
                    for n_, c in cols.items()}
            for rex in (False, True):
                for via_file in (False, True):
                    detect = rng.random() < 0.5
                    repair = rng.random() < 0.5
                    ctx.count((repr(case), rex, via_file, detect, repair), any(c['cells'] for c in cols.values()))
                    ctx.bump('config.rex=%s.file=%s.detect=%s.repair=%s' % (rex, via_file, detect, repair))
                    r = run_one(ctx, df, case, rex, via_file, detect, repair, work)
                    if r is not None:
                        what, fnd = r
                        finding = fnd if isinstance(fnd, str) else classify(cols, fnd, via_file)
                        ctx.fail(dict(frame=case, rex=rex, via_file=via_file, detect=detect, repair=repair),
                                 what, finding=finding)
            if i == 0:
                ctx.sample({'frame': case})
        for tag, df in extra_frames(rng):
            for rex in (False, True):
                for via_file in (False, True):
                  for repair in (False, True):
                    detect = rng.random() < 0.5
                    ctx.count(('extra', tag, rex, via_file, repair, detect), True)
                    r = run_one(ctx, df, {'extra': tag}, rex, via_file, detect, repair, work)
                    # a recognised column must produce constraints; unrecognised dtypes are the finding
                    from tdda.constraints import discover_df
                    with contextlib.redirect_stderr(io.StringIO()), contextlib.redirect_stdout(io.StringIO()):
                        try:
                            cs = discover_df(df.copy(), inc_rex=False)
                        except Exception:
                            cs = 'raised'
                    if tag in ('strdtype',) and cs is None:
                        ctx.fail({'extra': tag}, "a pandas-3 default 'str' column is not recognised as a string field: "
                                 'nothing is discovered', finding=F_STR)
                    if r is not None:
                        fnd = {'tz': F_TZ, 'stringext': F_STR, 'strdtype': F_STR}.get(tag)
                        if tag == 'nul-strings' and isinstance(r[1], tuple) and \
                                all(set(ks) <= {'min_length', 'max_length', 'allowed_values', 'rex'} for ks in r[1][1].values()):
                            fnd = F_NUL
                        ctx.fail({'extra': tag, 'rex': rex, 'via_file': via_file, 'repair': repair, 'detect': detect}, r[0],
                                 finding=fnd)
        # ---- a frame that is checked, then EDITED (an object column re-populated with objects of another kind, in the
        # frame itself and in a copy / slice of it) and checked again: what is discovered from the edited frame verifies
        # on it - nothing remembered from the first pass gets in the way
        import datetime as _dt
        import pandas as pd
        from tdda.constraints import discover_df
        kinds_ = {'text': lambda k: ['2020-01-%02d' % (j + 1) for j in range(k)],
                  'yn': lambda k: ['Y' if j % 2 else 'N' for j in range(k)],
                  'dates': lambda k: [_dt.date(2020, 1, j + 1) for j in range(k)],
                  'bools': lambda k: [None if j == 1 else bool(j % 2) for j in range(k)]}
        for it in range(10 if ctx.quick else 150):
            k = rng.randint(3, 6)
            first, second = rng.sample(sorted(kinds_), 2)
            df = pd.DataFrame({'id': list(range(k)), 'v': pd.Series(kinds_[first](k), dtype=object)})
            case = {'scenario': 'frame edited between passes', 'column_v_first': first, 'then': second, 'rows': k}
            ctx.count(repr(case) + str(it), True)
            ctx.bump('edited_frame')
            with contextlib.redirect_stderr(io.StringIO()), contextlib.redirect_stdout(io.StringIO()):
                try:
                    discover_df(df, inc_rex=False)
                except Exception:
                    pass
            how = rng.choice(['in place', 'copy', 'slice'])
            df2 = df if how == 'in place' else df.copy() if how == 'copy' else df.iloc[:k]
            if how == 'slice':
                df2 = df2.copy()
            df2['v'] = pd.Series(kinds_[second](k), dtype=object, index=df2.index)
            fresh = pd.DataFrame({'id': list(range(k)), 'v': pd.Series(kinds_[second](k), dtype=object)})
            for rex in (False,):
                r_edit = run_one(ctx, df2, case, rex, False, False, False, work)
                r_fresh = run_one(ctx, fresh, case, rex, False, False, False, work)
                if r_edit is not None and r_fresh is None:
                    ctx.fail(dict(case, how=how), 'after the edit (%s): %s; the same data in a new frame passes' % (how, r_edit[0]))
    finally:
        shutil.rmtree(work, ignore_errors=True)
    ctx.cov['rule'] = ('frames as in C07 x {rex off, on} x {dict, .tdda file} x {verify, detect} x {repair on, off}; '
                       'plus tz-aware / str / string-extension columns; non-trivial = has rows')
    ctx.assumptions += ['the Coq closure theorem covers the rules and verifiers; pandas aggregation, JSON file I/O and '
                        'rexpy are exercised end to end, not modelled here']


def classify(cols, fnd, via_file):
    if not fnd or fnd[0] != 'failing':
        return None
    bad = fnd[1]
    for nm, kinds in bad.items():
        c = cols.get(nm)
        if c is None:
            return None
        if c['variant'] == 'dateobj' and via_file and set(kinds) <= {'min', 'max'}:
            continue
        return None
    return F_DATEOBJ


def replay(ctx, data):
    print(data.get('what'))
    return 0
