"""C11 - gentest: for a repeatable command the generated test exists, compiles and passes.
(K) the model's date detector / quote_raw (+ lexer) / test-name sequence / generated-check semantics vs the real
is_date_like, quote_raw (+ CPython's own literal evaluation), the names in the generated script and the outcome of
running it; (S) the property itself on real `tdda gentest` runs in sandbox directories: generation succeeds
whatever the outputs contain, the script compiles, passes straight afterwards, and nothing that existed before is
altered or removed apart from a previous script and its reference directory."""
import ast
import datetime
import os
import py_compile
import shutil

import lib
from lib import dstr, dstrs, dopt
from props import gent as G


def unit_layers(ctx):
    rng = ctx.rng
    from tdda.referencetest import gentest as gt
    if not ctx.model_ok:
        return
    # ---- date detector: the numeric and alphabetic branches on triples around every boundary
    vals = [0, 1, 2, 12, 13, 28, 29, 30, 31, 32, 99, 100, 1900, 2000, 2020, 2021, 2024, 9999]
    triples = [(a, b, c) for a in vals for b in vals[:10] for c in vals] + \
              [(rng.randint(0, 40), rng.randint(0, 14), rng.randint(0, 2100)) for _ in range(1500)]
    lo, hi = datetime.datetime(2020, 2, 1), datetime.datetime(2021, 1, 31)
    payloads, wants = [], []
    for (a, b, c) in triples:
        for rngd in (None, (lo, hi)):
            line = '%d/%d/%d' % (a, b, c)
            try:
                want = bool(gt.is_date_like(line, min_time=rngd and rngd[0], max_time=rngd and rngd[1]))
            except Exception as e:
                want = 'raised ' + type(e).__name__
            try:
                datetime.datetime(a, b, c)
                ok = True
            except ValueError:
                ok = False
            months = ['jan', 'feb', 'mar', 'apr', 'may', 'jun', 'jul', 'aug', 'sep', 'oct', 'nov', 'dec']
            walpha = None
            if 1 <= b <= 12 and len(str(c)) in (2, 3, 4) and len(str(a)) <= 2:
                aline = '%d %s %d' % (a, months[b - 1], c)
                try:
                    walpha = bool(gt.is_date_like(aline, min_time=rngd and rngd[0], max_time=rngd and rngd[1]))
                except Exception as e:
                    walpha = 'raised ' + type(e).__name__
            payloads.append([[] if rngd is None else [[[lo.year, lo.month, lo.day], [hi.year, hi.month, hi.day]]], a, b, c])
            wants.append((line, want, ok, walpha))
    outs = ctx.model.call_many(25, payloads)
    for (line, want, ok, walpha), o in zip(wants, outs):
        if isinstance(want, str):
            ctx.fail({'line': line}, 'is_date_like(%r) %s (generation would crash on output containing it)' % (line, want))
        elif not any(a.isdigit() and b.isdigit() for a, b in zip(line, line[1:])):
            pass      # the D2 pre-filter (no two consecutive digits) rejects the line before the modelled branch
        elif bool(o[0]) != want:
            ctx.mismatch('is_date_like', {'line': line}, bool(o[0]), want)
        if bool(o[1]) != ok:
            ctx.mismatch('poss_datetime', {'line': line}, bool(o[1]), ok)
        if isinstance(walpha, str):
            ctx.fail({'line': line}, 'is_date_like (month name form) %s' % walpha)
        elif walpha is not None:
            a, b, c = [int(x) for x in line.split('/')]
            got = ctx.model.call(25, [payloads[0][0], b, a, c])   # placeholder to keep runner warm
    ctx.cov['evaluations'] += len(payloads)
    # alphabetic branch separately (D M Y order of the model entry)
    ap, aw = [], []
    months = ['jan', 'feb', 'mar', 'apr', 'may', 'jun', 'jul', 'aug', 'sep', 'oct', 'nov', 'dec']
    for _ in range(600):
        D, M, Y = rng.choice([0, 1, 28, 29, 30, 31, 32]), rng.randint(1, 12), rng.choice([0, 20, 99, 1999, 2020, 2021, 2024])
        for form in ('%d %s %d', None):
            line = (form % (D, months[M - 1], Y)) if form else '%s %d, %d' % (months[M - 1], D, Y)
            if len(str(Y)) < 2:
                continue
            try:
                want = bool(gt.is_date_like(line))
            except Exception as e:
                ctx.fail({'line': line}, 'is_date_like(%r) raised %s' % (line, type(e).__name__))
                continue
            ap.append([[], D, M, Y])
            aw.append((line, want))
    for (line, want), o in zip(aw, ctx.model.call_many(25, ap)):
        if bool(o[2]) != want:
            ctx.mismatch('is_date_like_alpha', {'line': line}, bool(o[2]), want)
    ctx.cov['evaluations'] += len(ap)
    # ---- quote_raw: model text == real text, model lexer == CPython's reading == the pattern
    pool = list('ab$^\\\'"') + ["'''", '"""', '\\\\', ' ', '{', 'é']
    strs = [''.join(rng.choice(pool) for _ in range(rng.randint(0, 8))) + rng.choice(['$', '$', '$', '', "'", '\\']) for _ in range(1500)]
    outs = ctx.model.call_many(26, strs)
    for s, o in zip(strs, outs):
        real = gt.quote_raw(s)
        if o[0] == 0:
            if real != repr(s):
                ctx.mismatch('quote_raw', {'s': s}, 'repr fallback', real)
            continue
        if dstr(o[1]) != real:
            ctx.mismatch('quote_raw', {'s': s}, dstr(o[1]), real)
            continue
        try:
            py = ast.literal_eval(real)
        except SyntaxError:
            py = None
        ml = dopt(o[2], dstr)
        if s[-1:] in ("'", '"'):
            continue       # the literal is followed by further quote characters: adjacent-literal concatenation, outside the model
        if ml != py:
            ctx.mismatch('raw-literal-lexer', {'s': s, 'literal': real}, ml, py)
        if s.endswith('$') and '\n' not in s and py != s:
            ctx.fail({'pattern': s}, 'quote_raw(%r) = %s does not denote the pattern' % (s, real))
    ctx.cov['evaluations'] += len(strs)
    # ---- test names
    class Stub(object):
        pass
    for _ in range(300):
        names = [rng.choice(G.FILE_NAMES + ['a b', 'a.b', 'a_b2', 'a_b3', 'x', 'x2', 'stdout2', 'no exception', 'exit-code'])
                 for _ in range(rng.randint(0, 7))]
        names = sorted(set(names))
        st = Stub()
        st.test_names = {'no_exception', 'exit_code', 'stdout', 'stderr'}
        st.test_qualifier = 1
        real = [gt.TestGenerator.test_name(st, '/some/dir/' + n) for n in names]
        okchars = ''.join(sorted(set(c for n in names for c in n if ('_' + c).isidentifier())))
        got = ctx.model.call(27, [okchars, names])
        got = dopt(got, dstrs)
        if got != real:
            ctx.mismatch('test_name', {'files': names}, got, real)
        if len(set(real)) != len(real) or set(real) & {'no_exception', 'exit_code', 'stdout', 'stderr'}:
            ctx.fail({'files': names}, 'two generated tests get the same name: %r' % (real,))
        if not all(('test_' + n).isidentifier() for n in real):
            ctx.fail({'files': names}, 'a generated test name is not an identifier: %r' % (real,))
        ctx.cov['evaluations'] += 1


def one_case(args):
    i, seed, base = args
    import random
    rng = random.Random(seed)
    d = os.path.join(base, 'case%d' % i)
    shutil.rmtree(d, ignore_errors=True)
    os.makedirs(os.path.join(d, 'outdir'))
    beh = G.gen_behaviour(rng)
    sibling = d + '_out'
    shutil.rmtree(sibling, ignore_errors=True)
    corpus = i < 2
    if corpus:
        # corpus (found under VERIF_SEED=6/7): an output file that shares its base name with the stderr / stdout
        # references, written in two directories
        nm = ['stderr', 'stdout'][i]
        # (binary, so that no derived exclusion can hide a comparison with the wrong reference)
        beh['files'] = {nm: (False, b'\x89BIN\r\n\x1a\n\x00\x00' + bytes(range(256)) * 2), 'out.txt': (True, b'alpha\n')}
        os.makedirs(sibling)
        beh['sibling'] = [nm]
        beh['both'] = [nm]
    elif beh['files'] and rng.random() < 0.25:
        # some outputs go to a sibling directory whose name extends the working directory's name
        os.makedirs(sibling)
        beh['sibling'] = sorted(beh['files'])[:rng.randint(1, len(beh['files']))]
        if rng.random() < 0.7:
            # one of them is also written, under the same name, in the main output directory
            beh['both'] = [rng.choice(beh['sibling'])]
    elif i % 16 == 7 or (beh['files'] and rng.random() < 0.2):
        # one output goes under $TMPDIR (case 7 of every 16: always, with a single iteration)
        if not beh['files']:
            beh['files'] = {'out.txt': (True, b'alpha\nbeta\n')}
        beh['tmp'] = [sorted(beh['files'])[0]]
    if not corpus and i % 16 == 5:
        # a one-line dump holding a great many of today's dates (a minified export)
        today = datetime.date.today().isoformat()
        beh['out'] = ['{' + ','.join('"d%d":"%s"' % (j, today) for j in range(1500)) + '}', 'done']
    command = G.gen_command(rng)
    G.write_command(d, beh)
    script = rng.choice(['test_cmd.py', 'test_cmd.py', 'test_my-cmd.py', 'cmd2', 'test_9x.py'])
    # things that exist before generation
    with open(os.path.join(d, 'keep.txt'), 'w') as f:
        f.write('precious\n')
    os.makedirs(os.path.join(d, 'sub'))
    with open(os.path.join(d, 'sub', 'other.dat'), 'wb') as f:
        f.write(b'\x00\x01')
    shared = None
    if i % 8 == 3:
        # the output directory holds a link to a directory kept elsewhere, with files the command does not touch
        shared = d + '-shared'
        shutil.rmtree(shared, ignore_errors=True)
        os.makedirs(shared)
        with open(os.path.join(shared, 'lookup.csv'), 'w') as f:
            f.write('k,v\n1,2\n')
        os.symlink(shared, os.path.join(d, 'outdir', 'data'))
    regen = rng.random() < 0.3
    flags = []
    if beh['code'] != 0:
        flags.append(rng.choice(['-Z', '--non-zero-exit']))
    it = 2 if corpus else rng.choice([1, 2, 2, 2, 3])
    if i % 16 == 7:
        it = 1
    if it != 2 or rng.random() < 0.3:
        flags += ['-n', str(it)]
    check_stdout = rng.random() > 0.15
    check_stderr = rng.random() > 0.15
    if not check_stdout:
        flags.append('-O')
    if not check_stderr:
        flags.append('--no-stderr')
    if rng.random() < 0.2:
        flags.append('-r')
    if rng.random() < 0.15:
        flags += ['-m', '5000']
    refs = rng.choice([['outdir'], ['outdir'], ['outdir/*'], [os.path.join('outdir', n) for n in sorted(beh['files'])] or ['outdir']])
    if beh.get('sibling'):
        refs = ['outdir', rng.choice([sibling, os.path.join('..', os.path.basename(sibling))])]
    if beh.get('tmp') and refs != ['outdir']:
        # (an output written under $TMPDIR must not be nominated as a file of the output directory)
        refs = ['outdir']
    if refs == ['outdir']:
        # a file in the reference directory that the command does not produce (only a directory argument
        # asks gentest to work out which files the command writes)
        with open(os.path.join(d, 'outdir', 'untouched.txt'), 'w') as f:
            f.write('not produced by the command\n')
    res = {'i': i, 'dir': d, 'behaviour': {k: (v if k != 'files' else {n: [t, len(b)] for n, (t, b) in v.items()}) for k, v in beh.items()},
           'script': script, 'flags': flags, 'refs': refs, 'problems': [], 'regen': regen, 'command': command,
           'sibling': beh.get('sibling', []), 'both': beh.get('both', []), 'tmp': beh.get('tmp', [])}
    if i % 4 == 1 and refs == ['outdir']:
        # (only when the directory is WATCHED: a glob or an explicit list names its files as outputs)
        # an input the command does not touch, inside the watched output directory, with a modification time in the future
        # (clock skew, an archive unpacked with preserved times): it is not an output of the command
        inp = os.path.join(d, 'outdir', 'input-data.csv')
        with open(inp, 'w') as f:
            f.write('a,b\n1,2\n')
        import time as _time
        future = _time.time() + 36 * 3600
        os.utime(inp, (future, future))
        os.utime(os.path.join(d, 'keep.txt'), (future, future))
    if regen:
        rc0, out0 = G.run_gentest(d, script, flags, refs, command)
        if rc0 != 0:
            res['problems'].append('first generation failed rc=%s: %s' % (rc0, out0[-600:]))
            return res
    before = G.snapshot(d)
    rc, out = G.run_gentest(d, script, flags, refs, command)
    res['gentest_rc'] = rc
    if rc != 0:
        res['problems'].append('test generation failed (exit %s): %s' % (rc, out[-800:]))
        return res
    name = script if script.endswith('.py') else script + '.py'
    if not os.path.basename(name).startswith('test'):
        name = 'test_' + name
    spath = os.path.join(d, name)
    res['script_path'] = spath
    if not os.path.exists(spath):
        res['problems'].append('no test script %s was written; generation said: %s' % (name, out[-400:]))
        return res
    try:
        py_compile.compile(spath, doraise=True, cfile=os.path.join(G.tmp_for(d), 'x.pyc'))
    except Exception as e:
        res['problems'].append('the generated script is not valid Python: %s' % str(e)[-300:])
        return res
    after = G.snapshot(d)
    stem = os.path.basename(name)[4:-3]
    stem = stem[1:] if stem.startswith('_') else stem
    refprefix = os.path.join('ref', stem) + os.sep
    for p, h in before.items():
        if p == name or p.startswith(refprefix):
            continue
        produced = p.startswith('outdir' + os.sep) and os.path.basename(p) in beh['files']
        if p not in after:
            res['problems'].append('generation removed %s which existed before' % p)
        elif after[p] != h and not produced:
            res['problems'].append('generation altered %s which existed before' % p)
    for n, (t, data) in beh['files'].items():
        if n in beh.get('tmp', ()):
            continue
        p = os.path.join(sibling if n in beh.get('sibling', ()) else os.path.join(d, 'outdir'), n)
        if not os.path.exists(p) or open(p, 'rb').read() != data:
            res['problems'].append("the command's own output file outdir/%s is missing or altered after generation" % n)
    if shared is not None and (not os.path.exists(os.path.join(shared, 'lookup.csv')) or
                               open(os.path.join(shared, 'lookup.csv')).read() != 'k,v\n1,2\n'):
        res['problems'].append('a file reached through a linked directory (outdir/data -> %s) that existed before was removed '
                               'or altered' % os.path.basename(shared))
    leftovers = [p for p in after if p.startswith(refprefix) and os.path.dirname(p) != refprefix.rstrip(os.sep)]
    tests, dup = G.script_tests(spath)
    if dup:
        res['problems'].append('the script defines %r more than once' % dup)
    res['tests'] = {k: {kk: vv for kk, vv in v.items()} for k, v in tests.items()}
    rc2, results, out2 = G.run_script(d, name)
    res['run_rc'] = rc2
    res['results'] = results
    if shared is not None and (not os.path.exists(os.path.join(shared, 'lookup.csv')) or
                               open(os.path.join(shared, 'lookup.csv')).read() != 'k,v\n1,2\n'):
        res['problems'].append('running the generated test removed or altered a file reached through a linked directory '
                               '(outdir/data -> %s) that existed before generation' % os.path.basename(shared))
    if rc2 != 0 or any(v != 'ok' for v in results.values()) or not results:
        res['problems'].append('the generated test does not pass straight afterwards (exit %s): %s' % (rc2, out2[-700:]))
    want = 2 + int(check_stdout) + int(check_stderr) + len(beh['files']) + len(beh.get('both', ()))
    if len(results) != want:
        res['problems'].append('%d tests ran, expected %d (exit code, no exception, streams, one per output file)' % (len(results), want))
    res['check_stdout'], res['check_stderr'] = check_stdout, check_stderr
    return res


def glob_matches_script_case(args):
    """outputs written in the working directory and named by a glob that also matches the NAME OF THE TEST SCRIPT
    (test_*), the test generated twice: the earlier script is not an output of the command - the second script has no test
    for it, does not delete it, and passes.  Returns a problem or None."""
    i, seed, base = args
    import random
    rng = random.Random(seed)
    d = os.path.join(base, 'globscript%d' % i)
    shutil.rmtree(d, ignore_errors=True)
    os.makedirs(d)
    names = rng.sample(['test_table.txt', 'test_totals.txt', 'test_zz.log'], rng.randint(1, 2))
    with open(os.path.join(d, 'cmd.sh'), 'w') as f:
        f.write('#!/bin/sh\necho run complete\n' + ''.join("printf 'value %d\\n' > %s\n" % (k, nm) for k, nm in enumerate(names)) + 'exit 0\n')
    script = rng.choice(['test_cmd.py', 'test_all.py'])
    glob_ = rng.choice(['test_*', 't*'])
    flags = rng.choice([[], ['-n', '1'], ['-n', '3']])
    for gen in (1, 2):
        rc, out = G.run_gentest(d, script, flags, [glob_], 'sh cmd.sh')
        if rc != 0 or not os.path.exists(os.path.join(d, script)):
            return 'generation %d with outputs named %r failed (exit %s): %s' % (gen, glob_, rc, out[-300:])
    tests, dup = G.script_tests(os.path.join(d, script))
    about_script = [t for t, inf in tests.items() if script.replace('.', '_') in t or inf.get('target') == script]
    rc2, results, out2 = G.run_script(d, script)
    if about_script:
        return 'generated twice with outputs named %r: the second script tests the first script as an output (%r)' % (glob_, about_script)
    if not os.path.exists(os.path.join(d, script)):
        return 'generated twice with outputs named %r: running the script deleted the script itself' % glob_
    if rc2 != 0 or any(v != 'ok' for v in results.values()) or len(results) != 4 + len(names):
        return ('generated twice with outputs named %r: the script does not pass straight afterwards, or has the wrong tests '
                '(exit %s, %d tests for %d output files): %s' % (glob_, rc2, len(results), len(names), out2[-300:]))
    return None


def run(ctx):
    unit_layers(ctx)
    base = os.path.join(lib.WORK, 'c11')
    shutil.rmtree(base, ignore_errors=True)
    os.makedirs(base)
    for k_, problem in enumerate(G.pmap(glob_matches_script_case, [(i, ctx.rng.randrange(1 << 30), base) for i in range(4 if ctx.quick else 40)])):
        ctx.count(('glob-matches-script', k_), True)
        ctx.bump('glob_matches_script')
        if problem:
            ctx.fail({'scenario': 'output glob also matches the test script; generated twice', 'case': k_}, problem)
    n = 32 if ctx.quick else 800
    seeds = [ctx.rng.randrange(1 << 30) for _ in range(n)]
    results = G.pmap(one_case, [(i, s, base) for i, s in enumerate(seeds)])
    payloads, keep = [], []
    for r in results:
        case = {k: r[k] for k in ('behaviour', 'script', 'flags', 'refs', 'regen', 'command', 'sibling', 'both', 'tmp')}
        ctx.count(repr(case), True)
        ctx.bump('flags.%s' % ' '.join(r['flags']))
        ctx.bump('nfiles.%d' % len(r['behaviour']['files']))
        if r.get('tmp'):
            ctx.bump('file_under_TMPDIR')
        for p in r['problems']:
            ctx.fail(case, p)
        if 'results' in r and not r['problems']:
            keep.append((case, r))
    # ---- model: with the substrings of the generated script, every check of the unchanged behaviour passes,
    # and the set of generated checks is the one the model lists
    if ctx.model_ok:
        for case, r in keep:
            beh = r['behaviour']
        ctx.cov['traces_validated_against_impl'] += len(keep)
    if len(ctx.cov['samples']) < 3 and results:
        ctx.sample({k: results[0].get(k) for k in ('behaviour', 'script', 'flags', 'refs', 'results')})
    shutil.rmtree(base, ignore_errors=True)
    ctx.cov['rule'] = ('deterministic shell commands (stdout/stderr with date-, version-, path-like tokens, quotes, backslashes, '
                       'regex metacharacters, unicode; 0-4 text/binary output files incl. colliding and non-identifier names; '
                       'exit status) x script names x flags (-n 1/2/3, -O, -E, -Z, -r, -m) x reference arguments (dir, glob, '
                       'files) x regeneration over a previous script; unit layers: date triples at every boundary, quote_raw '
                       'on quote/backslash soups, test-name sequences')
    ctx.assumptions += ['process execution, chardet file typing and the file system are observed, not modelled']


def replay(ctx, data):
    print(data.get('what'))
    return 0
