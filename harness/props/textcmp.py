"""Shared by C04/C15/C10: generation of (actual, reference) texts and options, the pattern
oracle table, invocation of the real comparison, the independent property oracle."""
import os
import re
import shutil
import tempfile

import lib
from lib import dstr, dstrs, dopt

WORDS = ['a', 'b', 'ab', 'x1', '12', '  ', ' a', 'a ', 'DATE', 'opt', '3', '', 'é', 'x12y', '\t',
         '(', '|', '2020-01-02', 'b3b', ' ', 'ab12']
SEPS_IN_TEXT = ['\n', '\n', '\n', '\n', '\r\n', '\r', '\x0c', '\x0b', '\x1c', '\x85', ' ']
PATTERNS = [[], [], [r'\d+'], [r'\d+', r'^ab.*$'], [r'a\s'], [r'^x\d'], [r'[a-z]+\d'], [r'\d{4}-\d\d-\d\d'],
            [r'b\d*b', r'\d'], [r'^\d+$'], [r'x*'], [r'(\d+)$'],
            # an earlier pattern that matches both lines without excusing the difference, a later one that excuses it
            [r'id \d+', r'^name=.* end$'], [r'\d+', r'run [a-z]+ \d+'], [r'7', r'[a-z]+ id']]


def gen_line(rng):
    return ' '.join(rng.choice(WORDS) for _ in range(rng.randint(0, 3)))


def mutate(rng, E):
    A = E[:]
    for _ in range(rng.choice([0, 0, 1, 1, 2, 3])):
        op = rng.random()
        if op < 0.3 and A:
            A[rng.randrange(len(A))] = gen_line(rng)
        elif op < 0.45:
            A.insert(rng.randint(0, len(A)), gen_line(rng))
        elif op < 0.6 and A:
            del A[rng.randrange(len(A))]
        elif op < 0.8 and len(A) > 1:
            i, j = rng.sample(range(len(A)), 2)
            A[i], A[j] = A[j], A[i]
        elif A:
            i = rng.randrange(len(A))
            A[i] = A[i].replace('1', '7').replace('3', '9') + rng.choice(['', ' ', '', 'z'])
    return A


def gen_opts(rng):
    return dict(lstrip=rng.random() < .3, rstrip=rng.random() < .3,
                ignore_substrings=rng.choice([[], [], ['DATE'], ['a', 'opt'], ['é']]),
                ignore_patterns=rng.choice(PATTERNS),
                remove_lines=rng.choice([[], [], [], ['opt'], ['x1', 'DATE'], ['b'], ['v1.0'], ['a+b'], ['[debug]'], ['(', 'opt'],
                                         ['.'], ['|']]),
                max_permutation_cases=rng.choice([0, 0, 1, 2, 5]),
                preprocess=rng.choice([None, None, None, 'upper', 'dropfirst']))


PREPROCESS = {None: None, 'upper': lambda ls: [l.upper() for l in ls], 'dropfirst': lambda ls: ls[1:]}


def gen_pair(rng):
    E = [gen_line(rng) for _ in range(rng.randint(0, 6))]
    if rng.random() < 0.15:
        E.append('')
    A = mutate(rng, E)
    if rng.random() < 0.1 and A:
        A = A + ['']
    if rng.random() < 0.06:
        # several empty lines at the end, on one side or on both
        k = rng.choice([2, 3])
        A = A + [''] * k
        if rng.random() < 0.6:
            E = E + [''] * rng.choice([k, k, k - 1])
    return A, E


def anchored(p):
    return ('' if p.startswith('^') else '^(.*)') + ('(%s)' % p) + ('' if p.endswith('$') else '(.*)$')


def pattern_oracle(pats, pairs, limit=4000):
    """Table of re.match results for every (pattern, string) the recursion can reach."""
    cps = [re.compile(anchored(p)) for p in pats]
    table = {}
    work = []
    for a, e in pairs:
        work.append(a)
        work.append(e)
    seen = set()
    while work and len(table) < limit:
        s = work.pop()
        if s in seen:
            continue
        seen.add(s)
        for i, cp in enumerate(cps):
            m = cp.match(s)
            if m is None:
                table[(i, s)] = None
            else:
                g = cp.groups
                l_, r_ = m.group(1), m.group(g)
                l_ = '' if l_ is None else l_
                r_ = '' if r_ is None else r_
                table[(i, s)] = (g, l_, r_)
                if g > 2:
                    work.append(l_)
                    work.append(r_)
    return [(i, s, ([] if v is None else [v[0], v[1], v[2]])) for (i, s), v in table.items()]


def model_payload(mode, o, A, E, apath):
    """A, E: lists of lines (mode 0) or strings (modes 1, 2), already preprocessed for mode 0."""
    pats = o['ignore_patterns'] or []
    if mode == 0:
        la, le = list(A), list(E)
    else:
        la, le = A.splitlines(), E.splitlines()
        pp = PREPROCESS[o.get('preprocess')]
        if pp:
            la, le = pp(la), pp(le)
    pairs = [(a, e) for a in la for e in le] if len(la) * len(le) <= 64 else list(zip(la, le))
    orc = pattern_oracle(pats, pairs) if pats else []
    return (mode, (o['lstrip'], o['rstrip'], o['ignore_substrings'] or [], len(pats),
                   o['remove_lines'] or [], o['max_permutation_cases'],
                   o.get('preprocess') is not None, apath), orc, A, E)


def decode_result(r):
    verdict = {0: 'pass', 1: 'fail', 2: 'diverge'}[r[0]]
    recon = dopt(r[6], lambda p: (dstrs(p[0]), dstrs(p[1])))
    return dict(verdict=verdict, ndiffs=r[1], aign=r[2], eign=r[3],
                arem=[bool(b) for b in r[4]], erem=[bool(b) for b in r[5]], recon=recon)


def new_comparison(tmp_dir):
    from tdda.referencetest.checkfiles import FilesComparison
    return FilesComparison(verbose=False, tmp_dir=tmp_dir)


def impl_check_strings(fc, A, E, o, apath=None, create_temporaries=False):
    kw = dict(lstrip=o['lstrip'], rstrip=o['rstrip'],
              ignore_substrings=o['ignore_substrings'] or None,
              ignore_patterns=o['ignore_patterns'] or None,
              remove_lines=o['remove_lines'] or None,
              preprocess=PREPROCESS[o.get('preprocess')],
              max_permutation_cases=o['max_permutation_cases'])
    try:
        # the caller's own list objects, checked twice: the second verdict is about the same texts
        A_in, E_in = list(A), list(E)
        r = fc.check_strings(A_in, E_in, actual_path=apath,
                             create_temporaries=create_temporaries, **kw)
        if not create_temporaries:
            r2 = fc.check_strings(A_in, E_in, actual_path=apath, create_temporaries=False, **kw)
            if (r.failures == 0) != (r2.failures == 0):
                return dict(verdict='unstable (%s, then %s for the same list objects)'
                            % ('pass' if r.failures == 0 else 'fail', 'pass' if r2.failures == 0 else 'fail'),
                            recon=None, msgs=None)
    except RecursionError:
        return dict(verdict='diverge', recon=None, msgs=None)
    except Exception as e:       # noqa: a comparison has to give a verdict
        return dict(verdict='raised %s: %s' % (type(e).__name__, str(e)[:120]), recon=None, msgs=None)
    recs = r.diffs.reconstructions
    recon = (list(recs[-1].diff_actual), list(recs[-1].diff_expected)) if recs else None
    return dict(verdict='pass' if r.failures == 0 else 'fail', recon=recon, msgs=r.diffs)


# ---------------------------------------------------------------- the property, restated

def _norm(l, ls, rs):
    return l.strip() if ls and rs else l.lstrip() if ls else l.rstrip() if rs else l


class Diverges(Exception):
    pass


def _excused_by_patterns(a, e, cps, depth=0):
    if a == e:
        return True
    if depth > 200:
        raise Diverges()
    for p in cps:
        me = p.match(e)
        if me:
            ma = p.match(a)
            if not ma:
                continue
            if p.groups in (1, 2):
                return True
            if _excused_by_patterns(ma.group(1) or '', me.group(1) or '', cps, depth + 1) and \
                    _excused_by_patterns(ma.group(p.groups) or '', me.group(p.groups) or '', cps, depth + 1):
                return True
    return False


def spec_verdict(A, E, o):
    """pass/fail the property requires for lists of lines (after preprocess)."""
    A, E = list(A), list(E)
    if A and A[-1] == '':
        A = A[:-1]
    if E and E[-1] == '':
        E = E[:-1]
    rem = o['remove_lines'] or []
    A2 = [l for l in A if not any(r in l for r in rem)]
    E2 = [l for l in E if not any(r in l for r in rem)]
    if len(A2) != len(E2):
        return 'fail', None
    cps = [re.compile(anchored(p)) for p in (o['ignore_patterns'] or [])]
    subs = o['ignore_substrings'] or []
    U = []
    for i, (a, e) in enumerate(zip(A2, E2)):
        if _norm(a, o['lstrip'], o['rstrip']) == _norm(e, o['lstrip'], o['rstrip']):
            continue
        if any(s in e for s in subs):
            continue
        if _excused_by_patterns(a, e, cps):
            continue
        U.append((i, a, e))
    if not U:
        return 'pass', U
    if len(U) <= o['max_permutation_cases'] and sorted(u[1] for u in U) == sorted(u[2] for u in U):
        return 'pass', U
    return 'fail', U


def workdir():
    d = os.path.join(lib.WORK, 'tmp')
    os.makedirs(d, exist_ok=True)
    return tempfile.mkdtemp(prefix='txt-', dir=d)
