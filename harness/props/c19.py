"""C19 - tagged runs execute exactly the tagged tests; listing runs none.
Layer A: _set_flags_from_argv vs RefTest/Argv.v (in-process).
Layer B: generated test modules run as subprocesses vs RefTest/Tagged.v, plus the
direct oracle (an independent restatement of the property)."""
import itertools
import os
import shutil
import subprocess
import sys
import tempfile
from concurrent.futures import ThreadPoolExecutor

import lib
from lib import dstr, dstrs, dopt

ALPH = ['-1', '-0', '-W', '-v', '-q', '-f', '-1v', '-v1', '-W1', '-10', '--tagged', '--istagged',
        '--write-all', '--write', '-w', '--w', 'table', 'graph,t', 'TA', 'TB', '--wquiet', '-',
        '--W', '-wquiet', '', '--verbose', '-vW0', 'a,b,,c', '--', '-x', 'W', '1', '--1']


def impl_set_flags(argv):
    from tdda.referencetest import referencetestcase as R
    from tdda.referencetest.referencetest import ReferenceTest
    ReferenceTest.regenerate.clear()
    ReferenceTest.verbose = True
    R.ReferenceTestCase.verbose = True
    a = list(argv)
    try:
        out, t, c = R._set_flags_from_argv(a)
    except Exception as e:
        ReferenceTest.regenerate.clear()
        return 'RAISE'
    table = sorted(((k if k is not None else None), v) for k, v in ReferenceTest.regenerate.items()
                   ) if False else dict(ReferenceTest.regenerate)
    quiet = not R.ReferenceTestCase.verbose
    ReferenceTest.regenerate.clear()
    R.ReferenceTestCase.verbose = True
    return (list(out), bool(t), bool(c), table, quiet)


def model_set_flags_decode(res):
    if res == []:
        return 'RAISE'
    argv, tagged, check, kinds, quiet = res
    table = {}
    for k in kinds:
        table[dopt(k, dstr)] = True
    return (dstrs(argv), bool(tagged), bool(check), table, bool(quiet))


def gen_argv(rng):
    n = rng.choice([0, 1, 1, 2, 2, 3, 3, 4, 5])
    toks = []
    for _ in range(n):
        r = rng.random()
        if r < 0.85:
            toks.append(rng.choice(ALPH))
        else:
            toks.append(''.join(rng.choice('-W10vwq,aT') for _ in range(rng.randint(0, 5))))
    prog = rng.choice(['prog', 'prog', 'prog', 'mod.py', '-w', '--tagged', '', '-1'])
    return [prog] + toks


# ------------------------------------------------------------ direct oracle (layer A)

TDDA_LONG = ('--tagged', '--istagged', '--W', '--write-all', '-wquiet', '--wquiet')
WRITE = ('-w', '--w', '--write')


def in_domain(argv):
    """argv the property speaks about: a real program name, each long tdda flag at most once,
    no write-with-kinds flag (handled separately), no empty arguments."""
    if not argv or argv[0] in TDDA_LONG + WRITE or not argv[0] or argv[0].startswith('-'):
        return False
    rest = argv[1:]
    if any(a == '' for a in rest):
        return False
    # the guards are about the arguments as they look after the single-dash scan
    # (e.g. -0w becomes -w, -1-tagged becomes --tagged), as in RefTest/ArgvProofs.v:in_domain
    sc = []
    for a in rest:
        if a.startswith('-') and not a.startswith('--'):
            a = ''.join(ch for ch in a if ch not in 'W10')
            if a in ('-', ''):
                continue
        sc.append(a)
    if any(a in WRITE for a in sc):
        return False
    if sum(1 for a in sc if a in ('--W', '--write-all')) > 1:
        return False
    return all(sc.count(f) <= 1 for f in TDDA_LONG)


def single_dash(a):
    return a.startswith('-') and not a.startswith('--')


def oracle_strip(argv):
    """What the property requires of the scanner on an in-domain argv."""
    rest = argv[1:]
    out = [argv[0]]
    sc = []
    for a in rest:
        if single_dash(a):
            a = ''.join(ch for ch in a if ch not in 'W10')
            if a in ('-', ''):
                continue
        sc.append(a)
    out += [a for a in sc if a not in TDDA_LONG]
    tagged = any(single_dash(a) and '1' in a for a in rest) or '--tagged' in sc
    check = any(single_dash(a) and '0' in a for a in rest) or '--istagged' in sc
    regen = any(single_dash(a) and 'W' in a for a in rest) or '--W' in sc or '--write-all' in sc
    quiet = '-wquiet' in sc or '--wquiet' in sc
    return (out, tagged, check, ({None: True} if regen else {}), quiet)


# ------------------------------------------------------------ layer B: modules

MOD_HEADER = '''import os
from tdda.referencetest import ReferenceTestCase, tag
def _log(s):
    with open(os.environ['TLOG'], 'a') as f:
        f.write(s + '\\n')
import functools
def _wrapped(fn):
    @functools.wraps(fn)
    def inner(*a, **k):
        return fn(*a, **k)
    return inner
'''


# options may also reach the program through a wrapper that rebuilds sys.argv (here: from an environment variable) before
# the tests are started: the command line in force is sys.argv as it is when main() is called
ENV_ARGS = """import sys as _sys
if os.environ.get('TDDA_EXTRA_ARGS'):
    _sys.argv = [_sys.argv[0]] + os.environ['TDDA_EXTRA_ARGS'].split() + _sys.argv[1:]
"""


def gen_module(rng):
    names = rng.sample(['TA', 'TB', 'TC', 'TD', 'Ta'], rng.randint(1, 4))
    classes = []
    pool = ['test_a', 'test_b', 'test_c', 'test_d', 'test_1']
    for i, n in enumerate(names):
        base = rng.choice(names[:i]) if i and rng.random() < 0.4 else None
        ctag = rng.random() < 0.3
        ms = [(m, rng.random() < 0.4) for m in rng.sample(pool, rng.randint(0, 3))]
        if base and rng.random() < 0.5:
            # override one inherited method with a different tag
            bm = [c for c in classes if c[0] == base][0][3]
            if bm:
                m = rng.choice(bm)
                ms = [x for x in ms if x[0] != m[0]] + [(m[0], not m[1])]
        classes.append((n, base, ctag, ms))
    return classes


LOAD_TESTS = '''
import unittest
def load_tests(loader, tests, pattern):
    suite = unittest.TestSuite()
    for cls in (%s,):
        inner = unittest.TestSuite()
        for name in loader.getTestCaseNames(cls):
            inner.addTest(cls(name))
        suite.addTest(inner)
    return suite
'''


def module_text(classes, hook=False):
    out = [MOD_HEADER]
    for n, base, ctag, ms in classes:
        if ctag:
            out.append('@tag')
        out.append('class %s(%s):' % (n, base or 'ReferenceTestCase'))
        if not ms:
            out.append('    pass')
        for m, t in ms:
            if t:
                out.append('    @tag')
            if (ord(m[-1]) + ord(n[-1])) % 3 == 0:
                # another decorator between the tag (if any) and the function: the tag is the outer one
                out.append('    @_wrapped')
            out.append('    def %s(self): _log(type(self).__name__ + %r)' % (m, '.' + m))
    if hook:
        out.append(LOAD_TESTS % ', '.join(c[0] for c in classes))
    out.append(ENV_ARGS)
    out.append("if __name__ == '__main__':\n    ReferenceTestCase.main()\n")
    text = '\n'.join(out)
    if sum(map(ord, text)) % 4 == 0:
        # the module-level entry point (tdda.referencetest.referencetestcase.main) instead of the class method
        text = text.replace("if __name__ == '__main__':\n    ReferenceTestCase.main()\n",
                            "if __name__ == '__main__':\n    from tdda.referencetest import referencetestcase as _rtc\n    _rtc.main()\n")
    return text


def effective(classes):
    """Independent resolution (Python semantics): name -> (class_tagged, {method: tagged})."""
    env = {}
    for n, base, ctag, ms in classes:
        bt, bm = env[base] if base else (False, {})
        d = dict(bm)
        d.update(dict(ms))
        env[n] = (ctag or bt, d)
    return env


def oracle_run(classes, argv):
    """Property: executed tests and listed classes for an in-domain argv (+ optional -w tail)."""
    env = effective(classes)
    pats = []
    argv = list(argv)
    while '-k' in argv:                      # unittest's -k PATTERN (substring of the test id unless it has a *)
        i = argv.index('-k')
        pats.append(argv[i + 1])
        del argv[i:i + 2]
    stripped, tagged, check, _, _ = oracle_strip(argv)
    rest = stripped[1:]
    names = [a for a in rest if not a.startswith('-')]
    sel = names if names else sorted(env)
    # unittest (argparse) accepts test names only as one contiguous block
    idx = [i for i, a in enumerate(rest) if not a.startswith('-')]
    if idx and idx[-1] - idx[0] + 1 != len(idx):
        return None

    import fnmatch

    def selected(c, m):
        if not pats:
            return True
        full = '__main__.%s.%s' % (c, m)
        return any(fnmatch.fnmatchcase(full, p if '*' in p else '*%s*' % p) for p in pats)

    def tests(c):
        if '.' in c:
            # an individual method named as Class.method: under the tagged / list options only a tagged one is specified
            c0, m0 = c.split('.', 1)
            ct, ms = env[c0]
            if m0 not in ms:
                return None
            if (tagged or check) and not (ct or ms[m0]):
                return None
            return [m0] if selected(c0, m0) else []
        ct, ms = env[c]
        return [m for m in sorted(ms) if ((not (tagged or check)) or ct or ms[m]) and selected(c, m)]
    if any(tests(c) is None for c in sel):
        return None
    cls = lambda c: c.split('.', 1)[0]
    if check:
        return ([], [cls(c) for c in sel if tests(c)])
    return ([cls(c) + '.' + m for c in sel for m in tests(c)], [])


def gen_run_argv(rng, classes, in_dom=True):
    cnames = [c[0] for c in classes]
    toks = []
    n = rng.randint(0, 4)
    used = set()
    for _ in range(n):
        t = rng.choice(['-1', '-0', '-W', '-v', '-q', '-f', '-1v', '-v1', '-W1', '-10', '--tagged',
                        '--istagged', '--write-all', '--W', '--wquiet', '-wquiet', '--verbose',
                        'CLS', 'CLS', '-b', '-vf', '-vW0'])
        if t == 'CLS':
            t = rng.choice(cnames)
        if in_dom and t in TDDA_LONG:
            if t in used or (t in ('--W', '--write-all') and used & {'--W', '--write-all'}):
                continue
            used.add(t)
        toks.append(t)
    if not in_dom:
        toks.insert(rng.randint(0, len(toks)), rng.choice(
            ['--tagged', '-x', '--1', '-', '', '--istagged', '-w']))
    tail = []
    if rng.random() < 0.2:
        tail = [rng.choice(WRITE)] + rng.choice([['table'], ['a,b'], ['x', 'y'], []])
    return ['mod.py'] + toks, tail


def run_subprocess(workdir, idx, text, argv):
    path = os.path.join(workdir, 'm%d' % idx)
    os.makedirs(path, exist_ok=True)
    with open(os.path.join(path, 'mod.py'), 'w') as f:
        f.write(text)
    logp = os.path.join(path, 'log.txt')
    open(logp, 'w').close()
    env = dict(os.environ, TLOG=logp, PYTHONPATH=lib.REPO, PYTHONHASHSEED='0')
    env.pop('TDDA_EXTRA_ARGS', None)
    if idx % 4 == 1 and argv[1:] and all(a.startswith('-') and ' ' not in a and a for a in argv[1:]) and '-k' not in argv \
            and not any(a in WRITE for a in argv):
        # every option through the wrapper's environment variable, none on the command line itself
        env['TDDA_EXTRA_ARGS'] = ' '.join(argv[1:])
        argv = argv[:1]
    p = subprocess.run([lib.PY, 'mod.py'] + argv[1:], cwd=path, env=env,
                       stdout=subprocess.PIPE, stderr=subprocess.PIPE, text=True, timeout=120)
    executed = open(logp).read().split()
    listed = [l[len('__main__.'):] for l in p.stdout.split('\n') if l.startswith('__main__.')]
    if p.returncode == 2 and not executed:
        cat = 'usage'
    elif 'Traceback' in p.stderr and p.returncode == 1 and not executed:
        cat = 'raised'
    else:
        cat = 'ran'
    shutil.rmtree(path, ignore_errors=True)
    return cat, executed, listed, p.returncode, p.stderr[-300:]


SEQ_MAIN = '''
if __name__ == '__main__':
    import json
    for _av in json.loads(os.environ['TSEQ']):
        print('=== RUN', flush=True)
        _log('===RUN')
        try:
            ReferenceTestCase.main(argv=list(_av), exit=False)
        except SystemExit as _e:
            print('=== EXIT %r' % (_e.code,), flush=True)
'''


def run_sequence(workdir, idx, text, argvs):
    """several runs of one test module in ONE process (as a driver script or an interactive session does):
    returns [(executed, listed)] per run"""
    import json
    path = os.path.join(workdir, 's%d' % idx)
    os.makedirs(path, exist_ok=True)
    text = text.replace("if __name__ == '__main__':\n    from tdda.referencetest import referencetestcase as _rtc\n    _rtc.main()\n",
                        "if __name__ == '__main__':\n    ReferenceTestCase.main()\n")
    text = text.replace("if __name__ == '__main__':\n    ReferenceTestCase.main()\n", SEQ_MAIN)
    with open(os.path.join(path, 'mod.py'), 'w') as f:
        f.write(text)
    logp = os.path.join(path, 'log.txt')
    open(logp, 'w').close()
    env = dict(os.environ, TLOG=logp, PYTHONPATH=lib.REPO, PYTHONHASHSEED='0', TSEQ=json.dumps(argvs))
    p = subprocess.run([lib.PY, 'mod.py'], cwd=path, env=env, stdout=subprocess.PIPE, stderr=subprocess.PIPE,
                       text=True, timeout=120)
    logs = open(logp).read().split('===RUN')[1:]
    outs = p.stdout.split('=== RUN')[1:]
    res = []
    for i in range(len(argvs)):
        executed = logs[i].split() if i < len(logs) else None
        listed = [l[len('__main__.'):] for l in (outs[i] if i < len(outs) else '').split('\n') if l.startswith('__main__.')]
        res.append((executed, listed))
    shutil.rmtree(path, ignore_errors=True)
    return res, p.stderr[-300:]


def model_run_decode(res):
    if res[0] == 0:
        return ('ran', [dstr(c) + '.' + dstr(m) for c, m in res[1]], dstrs(res[2]))
    return ('usage' if res[0] == 1 else 'raised', [], [])


def layer_d(ctx):
    """pytest front end: --tagged keeps exactly the tagged tests (own tag or class tag), in order; --istagged (alone
    or with --tagged) runs none and names each class with tagged tests once and each tagged function; without either
    option every collected test runs."""
    import contextlib
    import io
    from tdda.referencetest import referencepytest as rp
    rng = ctx.rng

    class Config:
        def __init__(self, opts):
            self.opts = opts

        def getoption(self, name, default=None):
            return self.opts.get(name, default)

    class Item:
        def __init__(self, name, obj):
            self.name, self.obj = name, obj

    for it in range(150 if ctx.quick else 3000):
        items, spec = [], []
        for ci in range(rng.randint(0, 3)):
            cls_tagged = rng.random() < 0.3
            ns = {}
            meths = []
            for mi in range(rng.randint(1, 3)):
                mt = rng.random() < 0.4

                def f(self):
                    return None
                f.__name__ = 'test_%d' % mi
                if mt:
                    f._tagged = True
                ns[f.__name__] = f
                meths.append((f.__name__, mt))
            cls = type('C%d' % ci, (object,), ns)
            if cls_tagged:
                cls._tagged = True
            inst = cls()
            for mn, mt in meths:
                items.append(Item(mn, getattr(inst, mn)))
                spec.append(('%s.C%d' % (cls.__module__, ci), None, mt or cls_tagged))
        for fi in range(rng.randint(0, 2)):
            ft = rng.random() < 0.5

            def g():
                return None
            g.__name__ = 'test_f%d' % fi
            if ft:
                g._tagged = True
            items.append(Item(g.__name__, g))
            spec.append((None, '%s.%s' % (g.__module__, g.__name__), ft))
        order = list(range(len(items)))
        rng.shuffle(order)
        items = [items[i] for i in order]
        spec = [spec[i] for i in order]
        for run_t, show_t in ((None, None), (True, None), (None, True), (True, True)):
            mine = list(items)
            buf = io.StringIO()
            with contextlib.redirect_stdout(buf):
                rp.tagged(Config({'--tagged': run_t, '--istagged': show_t}), mine)
            named = [l for l in buf.getvalue().split('\n') if l.strip()]
            if show_t:
                want_items = []
                want_named = []
                for (cn, fn, tg) in spec:
                    nm = cn or fn
                    if tg and nm not in want_named:
                        want_named.append(nm)
            elif run_t:
                want_items = [i for i, (cn, fn, tg) in zip(items, spec) if tg]
                want_named = []
            else:
                want_items, want_named = list(items), []
            case = {'layer': 'D', 'options': {'--tagged': run_t, '--istagged': show_t},
                    'items': [(i.name, sp[0] or sp[1], sp[2]) for i, sp in zip(items, spec)]}
            ctx.count(('D', repr(case)), any(sp[2] for sp in spec))
            ctx.bump('D.tagged=%s.istagged=%s' % (run_t, show_t))
            if [id(x) for x in mine] != [id(x) for x in want_items]:
                ctx.fail(case, 'pytest filter keeps %r to run; property requires %r'
                         % ([x.name for x in mine], [x.name for x in want_items]))
            elif sorted(named) != sorted(want_named):
                ctx.fail(case, 'pytest filter names %r; property requires %r' % (named, want_named))


def run(ctx):
    rng = ctx.rng
    # ---------------- layer A
    nA = 3000 if ctx.quick else 60000
    cases = [gen_argv(rng) for _ in range(nA)]
    if not ctx.quick:
        small = ALPH[:24]
        for k in range(0, 4):
            for rest in itertools.product(small, repeat=k):
                cases.append(['prog'] + list(rest))
        ctx.extra['exhaustive_argv_upto3_over'] = len(small)
    cases = [list(x) for x in dict.fromkeys(tuple(c) for c in cases)]
    model_out = ctx.model.call_many(1, cases) if ctx.model_ok else [None] * len(cases)
    dom = 0
    for argv, mo in zip(cases, model_out):
        impl = impl_set_flags(argv)
        nontriv = any(a.startswith('-') and a != '-' for a in argv[1:])
        ctx.count(('A', tuple(argv)), nontriv)
        ctx.bump('A.len%d' % min(len(argv) - 1, 5))
        if mo is not None:
            m = model_set_flags_decode(mo)
            ctx.cov['traces_validated_against_impl'] += 1
            if m != impl:
                ctx.mismatch('A:set_flags', argv, repr(m), repr(impl))
        if in_domain(argv):
            dom += 1
            want = oracle_strip(argv)
            if impl != want:
                ctx.fail({'layer': 'A', 'argv': argv},
                         'argv %r: scanner returned %r, property requires %r' % (argv, impl, want))
    ctx.extra['layerA_cases'] = len(cases)
    ctx.extra['layerA_in_property_domain'] = dom
    ctx.sample({'layer': 'A', 'argv': cases[min(7, len(cases) - 1)]})
    # ---------------- layer B
    nB = 160 if ctx.quick else 3000
    jobs = []
    for i in range(nB):
        classes = gen_module(rng)
        in_dom = rng.random() < 0.8
        argv, tail = gen_run_argv(rng, classes, in_dom)
        extra = None
        r = rng.random()
        if in_dom and r < 0.15:
            # an ordinary unittest option that narrows the selection: -k PATTERN
            argv = argv + ['-k', rng.choice(['test_a', 'test_b', '_1', 'TA', 'T*test_c', 'zzz'])]
            tail = []
            extra = 'k'
        elif in_dom and r < 0.3 and not any(a in [c[0] for c in classes] for a in argv[1:]):
            extra = 'hook'               # the module builds its own nested suites in load_tests
            tail = []
        elif in_dom and r < 0.42:
            # individual methods named as Class.method (one contiguous block of names, as unittest requires)
            env_ = effective(classes)
            opts_ = [a for a in argv[1:] if a.startswith('-')]
            names_ = []
            for _ in range(rng.choice([1, 1, 2])):
                c_ = rng.choice(sorted(env_))
                names_.append(rng.choice([c_ + '.' + m_ for m_ in sorted(env_[c_][1])] + [c_]) if env_[c_][1] else c_)
            k_ = rng.randint(0, len(opts_))
            argv = [argv[0]] + opts_[:k_] + names_ + opts_[k_:]
            tail = []
            extra = 'dotted'
        elif in_dom and 0.52 <= r < 0.6:
            # an old-style single-test class (a runTest method and no test* methods) that carries the tag - on the class or
            # on the method: it runs under the tagged option and is named by the list option like any other tagged test
            on_class = rng.random() < 0.5
            untagged = rng.random() < 0.35          # ... and one without any tag: never run or listed under the options
            classes = list(classes) + [('TR', None, on_class and not untagged, [('runTest', (not on_class) and not untagged)])]
            argv = [a for a in argv if a not in [c[0] for c in classes]] + rng.choice([[], ['TR']])
            tail = []
            extra = 'runtest'
        elif in_dom and r < 0.52:
            # the tagged / list option AFTER -w and its kinds
            tail = [rng.choice(WRITE)] + rng.choice([['graph'], ['graph', 'table'], ['a,b']]) + [rng.choice(['-1', '-0', '-10'])]
            extra = 'after-w'
        jobs.append((classes, argv, tail, in_dom, extra))
    work = tempfile.mkdtemp(prefix='c19-', dir=_workdir())
    try:
        with ThreadPoolExecutor(16) as ex:
            results = list(ex.map(lambda t: run_subprocess(work, t[0], module_text(t[1][0], hook=t[1][4] == 'hook'),
                                                           t[1][1] + t[1][2]), enumerate(jobs)))
    finally:
        shutil.rmtree(work, ignore_errors=True)
    payloads = [([(n, ([b] if b else []), t, [(m, mt) for m, mt in ms]) for n, b, t, ms in classes],
                 argv + tail) for classes, argv, tail, _, _ in jobs]
    # base is option: enc of [b] gives ((codes)) as needed; [] gives ()
    mouts = ctx.model.call_many(2, payloads) if ctx.model_ok else [None] * len(jobs)
    for (classes, argv, tail, in_dom, extra), (cat, executed, listed, rc, err), mo in zip(jobs, results, mouts):
        full = argv + tail
        if extra:
            ctx.bump('B.extra.' + extra)
            if extra == 'hook':
                listed = sorted(set(listed), key=listed.index)     # a hook module names each class once per suite level
            if extra in ('k', 'dotted', 'after-w', 'runtest'):
                mo = None                                          # outside the model: decided by the oracle
            elif mo is not None and cat == 'ran':
                executed = sorted(executed)
                m0 = model_run_decode(mo)
                mo = None
                if (m0[0], sorted(m0[1]), m0[2]) != (cat, executed, listed):
                    ctx.mismatch('B:run_module(load_tests)', {'classes': classes, 'argv': full}, repr(m0), repr((cat, executed, listed)))
        nontriv = any(t for _, _, t, _ in classes) or any(mt for c in classes for _, mt in c[3])
        ctx.count(('B', repr(classes), tuple(full)), nontriv)
        ctx.bump('B.' + cat)
        ctx.bump('B.in_domain' if in_dom else 'B.out_of_domain')
        if mo is not None:
            m = model_run_decode(mo)
            ctx.cov['traces_validated_against_impl'] += 1
            if m != (cat, executed if cat == 'ran' else [], listed if cat == 'ran' else []):
                ctx.mismatch('B:run_module', {'classes': classes, 'argv': full}, repr(m),
                             repr((cat, executed, listed, rc, err)))
        if in_dom and in_domain(argv) and not (tail and len(tail) == 1):
            # (a single-dash tagged / list option after the kinds of -w still counts: the options may come before or after)
            want = oracle_run(classes, argv + ([tail[-1]] if extra == 'after-w' else []))
            if want is None:
                continue
            if extra == 'hook':
                want = (sorted(want[0]), want[1])
                executed = sorted(executed)
            if cat != 'ran' or (executed, listed) != want:
                ctx.fail({'layer': 'B', 'classes': classes, 'argv': full},
                         'module run with %r executed %r listed %r (%s, rc=%s); property requires '
                         'executed %r listed %r' % (full, executed, listed, cat, rc, want[0], want[1]))
    # ---------------- layer C: several runs in one process must each behave as a run on its own
    nC = 24 if ctx.quick else 400
    seqjobs = []
    for i in range(nC):
        classes = gen_module(rng)
        argvs = []
        for _ in range(rng.choice([2, 3])):
            for _try in range(20):
                argv, tail = gen_run_argv(rng, classes, True)
                if in_domain(argv) and oracle_run(classes, argv) is not None and '-W' not in ' '.join(argv) \
                        and not any(a.startswith('--w') or a.startswith('-w') for a in argv):
                    argvs.append(argv)
                    break
        if len(argvs) >= 2:
            seqjobs.append((classes, argvs))
    work = tempfile.mkdtemp(prefix='c19s-', dir=_workdir())
    try:
        with ThreadPoolExecutor(16) as ex:
            seqres = list(ex.map(lambda t: run_sequence(work, t[0], module_text(t[1][0]), t[1][1]), enumerate(seqjobs)))
    finally:
        shutil.rmtree(work, ignore_errors=True)
    for (classes, argvs), (res, err) in zip(seqjobs, seqres):
        for k, (argv, (executed, listed)) in enumerate(zip(argvs, res)):
            want = oracle_run(classes, argv)
            ctx.count(('C', repr(classes), tuple(map(tuple, argvs)), k), True)
            ctx.bump('C.run%d' % k)
            if executed is None or (executed, listed) != want:
                ctx.fail({'layer': 'C', 'classes': classes, 'argvs': argvs, 'run': k},
                         'run %d of %r in one process executed %r listed %r; a run on its own gives executed %r listed %r (%s)'
                         % (k, argvs, executed, listed, want[0], want[1], err[-120:]))
    # ---------------- layer D: the pytest collection filter (referencepytest.tagged) on stand-in items
    layer_d(ctx)
    ctx.sample({'layer': 'B', 'classes': jobs[0][0], 'argv': jobs[0][1] + jobs[0][2],
                'executed': results[0][1], 'listed': results[0][2]})
    ctx.cov['rule'] = ('layer A: argv lists over a %d-token alphabet plus random flag-like strings '
                       '(thorough: exhaustive up to 3 arguments); non-trivial = contains a dash argument. '
                       'layer B: random modules (1-4 classes, single inheritance, overrides, class/method '
                       'tags) x argv mixing tdda flags, unittest flags, class names, -w tails, run as '
                       'subprocesses; non-trivial = module has at least one tag; distinct by full case'
                       % len(ALPH))
    ctx.assumptions += ['unittest/argparse behaviour on the remaining argv is modelled (flags in a fixed '
                        'list are accepted, anything else is a usage error), validated by layer B']


def _workdir():
    d = os.path.join(lib.WORK, 'tmp')
    os.makedirs(d, exist_ok=True)
    return d


def replay(ctx, data):
    case = data.get('case', {})
    if case.get('layer') == 'A':
        argv = case['argv']
        print('argv', argv, '\nimpl ', impl_set_flags(argv), '\nspec ', oracle_strip(argv))
        return 0 if impl_set_flags(argv) == oracle_strip(argv) else 1
    if case.get('layer') == 'B':
        classes = [tuple(c[:3]) + ([tuple(m) for m in c[3]],) for c in case['classes']]
        work = tempfile.mkdtemp(prefix='c19-', dir=_workdir())
        try:
            r = run_subprocess(work, 0, module_text(classes), case['argv'])
        finally:
            shutil.rmtree(work, ignore_errors=True)
        print('observed', r)
        return 0
    print(data)
    return 0
