"""C08 - database discovery is sound and database verification notices violating rows (SQLite).
Tables over integer/real/text/varchar/boolean/datetime columns -> discover_db_table (rex off/on) ->
verify_db_table on the same table: no failures, no error; then every single-row perturbation that
breaks one discovered constraint must be reported for that constraint."""
import contextlib
import datetime
import io
import math
import os
import shutil
import sqlite3

import lib
from props import cons as C
from props import textcmp as T

TEXTS = ['a ', 'padded   ', ' lead', 'tab\t', 'a', 'bb', "q'uote", 'double"q', 'back\\slash', 'é', '雪だるま', 'new\nline', 'x y', 'ccc', '12', 'A1', 'percent%',
         "it's", "''", 'semi;colon', 'tab\t', 'z' * 30, 'line\u2028sep', 'para\u2029sep', 'next\x85line', 'cr\rhere', '', '', 'srv\\data', 'nas\\data', 'srv\\data']   # incl. the empty string (not NULL)
F_TYPES = 'c08-declared-type-names'
F_DATES = 'c08-date-formats'
F_COLNAME = 'c08-quoted-column-name'


def gen_table(rng):
    nrows = rng.choice([0, 1, 2, 3, 5, 8])
    cols = []
    kinds = rng.sample(['integer', 'real', 'text', 'varchar', 'boolean', 'datetime'], rng.randint(1, 4))
    for i, k in enumerate(kinds):
        null_p = rng.choice([0, 0, 0.3, 1.0])
        cells = []
        for r in range(nrows):
            if rng.random() < null_p:
                cells.append(None)
            elif k == 'integer':
                cells.append(rng.choice([0, 1, -1, 7, 100, 2 ** 40, -5, 3]))
            elif k == 'real':
                cells.append(rng.choice([0.0, 1.5, -2.25, 1e10, 0.1, 3.0, -0.5, 0.1 + 0.2, 2 / 3, 4 / 3, -1 / 3, 22 / 7, 1e-7 / 3,
                                         0.7999999999999999, 0.29999999999999993]))   # incl. reals needing 16-17 digits
            elif k in ('text', 'varchar'):
                cells.append(rng.choice(TEXTS))
            elif k == 'boolean':
                cells.append(rng.choice([0, 1]))
            else:
                cells.append(rng.choice(['2020-01-02 03:04:05', '1999-12-31 23:59:59', '2021-06-07 00:00:00']))
        cols.append(('c%d' % i if rng.random() < 0.7 else rng.choice(['my col', 'order', 'é', '#items', ' pad ', 'growth %', '100%', '% done', 'a%sb', 'c%(x)s']) + str(i), k, cells))
    return nrows, cols


PK = [False]


def make_db(path, nrows, cols, rng=None):
    PK[0] = False
    conn = sqlite3.connect(path)
    decl = ', '.join('"%s" %s' % (n, k) for n, k, _ in cols)
    # sometimes with a composite primary key (every member of it is flagged pk by SQLite, yet may repeat on its own)
    if rng is not None and len(cols) >= 2 and nrows > 1 and rng.random() < 0.35:
        pairs = [(cols[0][2][r], cols[1][2][r]) for r in range(nrows)]
        if all(a is not None and b is not None for a, b in pairs) and len(set(pairs)) == len(pairs):
            decl += ', primary key ("%s", "%s")' % (cols[0][0], cols[1][0])
            PK[0] = True
    conn.execute('create table tbl (%s)' % decl)
    for r in range(nrows):
        conn.execute('insert into tbl values (%s)' % ','.join('?' * len(cols)), [c[2][r] for c in cols])
    conn.commit()
    conn.close()


_DB = {}


def connection(path, shared):
    """shared=True: one connection object per table for discovery, verification and re-verification
    (history-dependent state such as caches would show); False: a fresh connection per call."""
    from tdda.constraints.db.drivers import database_connection
    if not shared:
        return database_connection(dbtype='sqlite', db=path)
    if path not in _DB:
        _DB.clear()
        _DB[path] = database_connection(dbtype='sqlite', db=path)
    return _DB[path]


SHARED = [False]


def discover(path, rex):
    from tdda.constraints.db.constraints import discover_db_table
    with contextlib.redirect_stderr(io.StringIO()), contextlib.redirect_stdout(io.StringIO()):
        db = connection(path, SHARED[0])
        return discover_db_table('sqlite', db, 'tbl', inc_rex=rex)


def verify(path, cdict):
    from tdda.constraints.db.constraints import verify_db_table
    with contextlib.redirect_stderr(io.StringIO()), contextlib.redirect_stdout(io.StringIO()):
        db = connection(path, SHARED[0])
        v = verify_db_table('sqlite', db, 'tbl', cdict)
    return {nm: {k: (None if fr[k] is None else bool(fr[k])) for k in C.KINDS if k in fr} for nm, fr in v.fields.items()}, \
        int(v.failures)


def perturbations(name, kind, cells, cons, rng):
    """Rows (one value for this column) that break one discovered constraint each: (kind, value)."""
    vals = [c for c in cells if c is not None]
    out = []
    if 'min' in cons and kind in ('integer', 'real'):
        out.append(('min', cons['min'] - 1))
    if 'max' in cons and kind in ('integer', 'real'):
        out.append(('max', cons['max'] + 1))
    if kind == 'datetime' and vals:
        # beyond the bound by an hour (often the same calendar day)
        import datetime as _dt
        ts = sorted(_dt.datetime.strptime(v, '%Y-%m-%d %H:%M:%S') for v in vals)
        if 'max' in cons:
            out.append(('max', (ts[-1] + _dt.timedelta(hours=1)).strftime('%Y-%m-%d %H:%M:%S')))
        if 'min' in cons and ts[0].hour >= 1:
            out.append(('min', (ts[0] - _dt.timedelta(minutes=30)).strftime('%Y-%m-%d %H:%M:%S')))
    if 'min_length' in cons and cons['min_length'] > 0:
        out.append(('min_length', 'x' * (cons['min_length'] - 1)))
    if 'max_length' in cons:
        out.append(('max_length', 'y' * (cons['max_length'] + 1)))
    if 'allowed_values' in cons:
        out.append(('allowed_values', 'never-seen-value'))
    if cons.get('no_duplicates') and vals:
        out.append(('no_duplicates', vals[0]))
    if 'max_nulls' in cons:
        out.append(('max_nulls', None) if cons['max_nulls'] == 0 else ('max_nulls', None))
    if 'rex' in cons and cons['rex'] is not None and kind in ('text', 'varchar'):
        # (an empty expression list - discovered from a column with no strings - is satisfied by nulls only)
        out.append(('rex', '@@ no expression matches this #'))
        # a string that no expression matches only because of the case of its letters
        import re as _re
        for v_ in vals:
            flipped = v_.swapcase()
            if flipped != v_ and not any(_re.fullmatch(r_, flipped, _re.DOTALL) for r_ in cons['rex']):
                out.append(('rex', flipped))
                break
    if cons.get('sign') in ('positive', 'non-negative') and kind in ('integer', 'real'):
        out.append(('sign', -3))
    if cons.get('sign') in ('negative', 'non-positive') and kind in ('integer', 'real'):
        out.append(('sign', 4))
    if cons.get('sign') == 'zero' and kind in ('integer', 'real'):
        out.append(('sign', 9))
    if kind == 'boolean' and vals:
        # a flag column that is false (true) in every row, then one row that is not
        if cons.get('max') == 0:
            out.append(('max', 1))
        if cons.get('min') == 1:
            out.append(('min', 0))
    return out


def run(ctx):
    rng = ctx.rng
    n = 120 if ctx.quick else 4000
    work = T.workdir()
    try:
        for it in range(n):
            nrows, cols = gen_table(rng)
            rex = rng.random() < 0.5
            SHARED[0] = rng.random() < 0.5
            path = os.path.join(work, 't%d.db' % it)
            make_db(path, nrows, cols, rng)
            case = {'columns': [(nm, k, [repr(x) for x in cells]) for nm, k, cells in cols], 'rex': rex,
                    'shared_connection': SHARED[0], 'composite_primary_key_on_first_two_columns': PK[0]}
            ctx.count(repr(case), nrows > 0)
            for _, k, _ in cols:
                ctx.bump('col.' + k)
            ctx.bump('rex.%s' % rex)
            ctx.bump('shared_connection.%s' % SHARED[0])
            try:
                cs = discover(path, rex)
            except Exception as e:
                ctx.fail(case, 'discover_db_table raised %s: %s' % (type(e).__name__, str(e)[:200]),
                         finding=classify(cols, e))
                os.remove(path)
                continue
            if cs is None:
                os.remove(path)
                continue
            cdict = cs.to_dict()
            tdda = path + '.tdda'
            with open(tdda, 'w', encoding='utf-8') as f:
                f.write(cs.to_json())
            try:
                verdicts, failures = verify(path, tdda)
            except Exception as e:
                ctx.fail(case, 'verify_db_table of the table against its own constraints raised %s: %s'
                         % (type(e).__name__, str(e)[:200]), finding=classify(cols, e))
                os.remove(path)
                continue
            if failures:
                bad = {nm: [k for k, v in d.items() if v is False] for nm, d in verdicts.items()}
                ctx.fail(case, 'discovered constraints fail on their own table: %r' % {k: v for k, v in bad.items() if v},
                         finding=classify_fail(cols, bad))
            # ---- single-row perturbations
            for ci, (nm, kind, cells) in enumerate(cols):
                cons = cdict['fields'].get(nm)
                if not cons:
                    continue
                for pk, pv in perturbations(nm, kind, cells, cons, rng):
                    row = []
                    for cj, (nm2, kind2, cells2) in enumerate(cols):
                        if cj == ci:
                            row.append(pv)
                        elif PK[0] and cj < 2 and ci < 2:
                            # the other member of the composite key: a value not in the table, so that the pair is new
                            row.append({'integer': 987654321 + it, 'real': 98765.4321 + it, 'boolean': 0,
                                        'datetime': '2031-02-03 04:05:06'}.get(kind2, 'fresh key value %d' % it))
                        else:
                            nn = [c for c in cells2 if c is not None]
                            # a value that breaks nothing in the other columns where possible
                            row.append(nn[0] if nn else None)
                    conn = sqlite3.connect(path)
                    try:
                        conn.execute('insert into tbl values (%s)' % ','.join('?' * len(cols)), row)
                    except sqlite3.IntegrityError:
                        conn.close()
                        continue                   # the table's own key forbids this row
                    conn.commit()
                    try:
                        v2, f2 = verify(path, tdda)
                        ctx.count(('perturb', it, nm, pk), True)
                        ctx.bump('perturb.' + pk)
                        if v2.get(nm, {}).get(pk) is not False:
                            ctx.fail(dict(case, perturbation={'column': nm, 'breaks': pk, 'row': [repr(x) for x in row]}),
                                     'added row %r breaks %s on %r but verification reports %r'
                                     % (row, pk, nm, v2.get(nm, {}).get(pk)))
                    except Exception as e:
                        ctx.fail(dict(case, perturbation={'column': nm, 'breaks': pk}),
                                 'verify_db_table after adding a row raised %s: %s' % (type(e).__name__, str(e)[:200]),
                                 finding=classify(cols, e))
                    conn.execute('delete from tbl where rowid = (select max(rowid) from tbl)')
                    conn.commit()
                    conn.close()
            os.remove(path)
            if it == 0:
                ctx.sample(case)
        # ---- a violating row added through the SAME connection and not yet committed (the caller's open transaction):
        # verification sees it, reports the constraint as failed, and leaves the caller's transaction alone
        from tdda.constraints.db.drivers import database_connection
        from tdda.constraints.db.constraints import discover_db_table, verify_db_table
        for it in range(10 if ctx.quick else 150):
            path = os.path.join(work, 'open%d.db' % it)
            conn = sqlite3.connect(path)
            conn.execute('create table tbl (n integer, s text)')
            vals = [(rng.randint(0, 50), rng.choice(['a', 'bb', 'ccc'])) for _ in range(rng.randint(2, 6))]
            conn.executemany('insert into tbl values (?, ?)', vals)
            conn.commit()
            conn.close()
            kind, row = rng.choice([('min', (-9, 'a')), ('max', (10 ** 6, 'a')), ('max_length', (1, 'z' * 40)), ('max_nulls', (None, 'a'))])
            case = {'scenario': 'violating row inserted on the same connection, not committed', 'rows': vals, 'added': row, 'breaks': kind}
            ctx.count(repr(case), True)
            ctx.bump('uncommitted_row.' + kind)
            try:
                with contextlib.redirect_stderr(io.StringIO()), contextlib.redirect_stdout(io.StringIO()):
                    db = database_connection(dbtype='sqlite', db=path)
                    cs = discover_db_table('sqlite', db, 'tbl', inc_rex=False)
                    db.connection.execute('insert into tbl values (?, ?)', row)
                    with open(path + '.tdda', 'w', encoding='utf-8') as f_:
                        f_.write(cs.to_json())
                    v = verify_db_table('sqlite', db, 'tbl', path + '.tdda')
                    left = db.connection.execute('select count(*) from tbl').fetchone()[0]
                    db.connection.rollback()
                    db.connection.close()
            except Exception as e:
                ctx.fail(case, 'discover / insert / verify on one connection raised %s: %s' % (type(e).__name__, str(e)[:200]))
                continue
            fld = 'n' if kind in ('min', 'max', 'max_nulls') else 's'
            got = v.fields[fld][kind] if kind in v.fields[fld] else None
            if got is not False:
                ctx.fail(case, 'the added row breaks %s on %r but verification on the same connection reports %r (failures %d)'
                         % (kind, fld, got, v.failures))
            if left != len(vals) + 1:
                ctx.fail(case, 'the table had %d rows in the caller\'s open transaction before verification and %d after it'
                         % (len(vals) + 1, left))
            os.remove(path)
        # ---- large tables: more distinct values than any in-memory shortcut is likely to keep, with the shortest,
        # the longest and the smallest / largest values late in sort and in insertion order
        for size in ([130000] if ctx.quick else [20000, 70000, 130000, 300000]):
            for rex in ([False] if ctx.quick else [False, True]):
                path = os.path.join(work, 'large%d.db' % size)
                conn = sqlite3.connect(path)
                conn.execute('CREATE TABLE tbl (ref TEXT, n INTEGER, x REAL)')
                rows = [('k%07d' % i, i + 5, i * 0.5 + 1.0) for i in range(size)]
                rows += [('z', -3, -0.25), ('zz-the-longest-of-all-values', size * 7, size * 7.5)]
                conn.executemany('INSERT INTO tbl VALUES (?, ?, ?)', rows)
                conn.commit()
                conn.close()
                case = {'scenario': 'large table', 'distinct_values': size + 2, 'rex': rex,
                        'rows': "('k%07d' % i, i + 5, i * 0.5 + 1.0) for i < size, then ('z', -3, -0.25) and "
                                "('zz-the-longest-of-all-values', 7 * size, 7.5 * size)"}
                ctx.count(repr(case), True)
                ctx.bump('large_table.%d' % size)
                SHARED[0] = False
                try:
                    cs = discover(path, rex)
                    tdda = path + '.tdda'
                    with open(tdda, 'w', encoding='utf-8') as f:
                        f.write(cs.to_json())
                    verdicts, failures = verify(path, tdda)
                except Exception as e:
                    ctx.fail(case, 'discover / verify of a large table raised %s: %s' % (type(e).__name__, str(e)[:200]))
                    os.remove(path)
                    continue
                if failures:
                    bad = {nm: [k for k, v in d.items() if v is False] for nm, d in verdicts.items()}
                    ctx.fail(case, 'discovered constraints fail on their own (large) table: %r'
                             % {k: v for k, v in bad.items() if v})
                got = cs.to_dict()['fields']
                want = {'ref': {'min_length': 1, 'max_length': 28}, 'n': {'min': -3, 'max': size * 7},
                        'x': {'min': -0.25, 'max': size * 7.5}}
                for nm, d in want.items():
                    for k, v in d.items():
                        if got.get(nm, {}).get(k) != v:
                            ctx.fail(case, 'large table: discovered %s.%s = %r, the table has %r' % (nm, k, got.get(nm, {}).get(k), v))
                os.remove(path)
    finally:
        shutil.rmtree(work, ignore_errors=True)
    ctx.cov['rule'] = ('SQLite tables of 1-4 columns over integer/real/text/varchar/boolean/datetime, 0-8 rows, null '
                       'patterns incl. all-null, text with quotes/backslashes/unicode/newlines, odd column names x rex '
                       'off/on; then one added row per discovered constraint that breaks exactly that constraint; '
                       'each discover/verify and each perturbation is one evaluation')
    ctx.assumptions += ['SQLite evaluation of the generated SQL text is not modelled; the Coq side proves the literal '
                        'quoting round trip and that each perturbation class falsifies the corresponding verifier']


def classify(cols, e):
    s = str(e)
    return None


def classify_fail(cols, bad):
    return None


def replay(ctx, data):
    print(data.get('what'))
    return 0
