"""C14 - rexpy results depend only on the multiset of examples and the seed.
(K) the extracted model replays each real run; the model of the generator protocol (Rexpy/Prng.v) predicts the
exact sequence of getstate / seed / sample / setstate calls of each run; (S) the property itself: reordering,
list vs frequency dictionary, repeated calls (after unrelated calls in the same process), repeated examples,
and with a seed: reproducibility (small inputs with sampling forced, and inputs larger than the sampling
thresholds) and the global generator left exactly as found."""
import collections
import os
import random
import warnings

import lib
from props import rex as R
from props import rexmodel as M

warnings.filterwarnings('ignore', category=FutureWarning)


def rexes_of(x):
    return list(x.results.rex) if x.results else []


def run_plain(arg, opts, size=None, seed=None):
    x, rec = M.run_impl(arg, opts, size, seed)
    if isinstance(x, Exception):
        raise x
    return rexes_of(x), rec, x


def fresh_process_rexes(arg, opts, size, seed):
    """the expressions the same call gives as the FIRST rexpy call of a fresh interpreter"""
    import json
    import subprocess
    blob = json.dumps({'arg': list(arg), 'opts': opts, 'size': size, 'seed': seed})
    code = ('import json,sys,io,contextlib\n'
            'import tdda.rexpy.rexpy as rx\n'
            'd=json.loads(sys.stdin.read())\n'
            'size=rx.Size(**d["size"]) if d["size"] else None\n'
            'with contextlib.redirect_stdout(io.StringIO()):\n'
            '    x=rx.Extractor(d["arg"], size=size, seed=d["seed"], **d["opts"])\n'
            'print(json.dumps(list(x.results.rex) if x.results else []))\n')
    p_ = subprocess.run([lib.PY, '-c', code], input=blob, stdout=subprocess.PIPE, stderr=subprocess.PIPE, text=True,
                        env=dict(os.environ, PYTHONPATH=lib.REPO, PYTHONHASHSEED='0'), timeout=120)
    return json.loads(p_.stdout.strip().split('\n')[-1])


def big_input(rng, n):
    out = set()
    while len(out) < n:
        k = rng.choice([1, 2, 3])
        if k == 1:
            out.add('%s-%04d' % (rng.choice(['AB', 'CD', 'xy']), rng.randrange(10000)))
        elif k == 2:
            out.add('%d.%d.%d' % (rng.randrange(300), rng.randrange(300), rng.randrange(30)))
        else:
            out.add(''.join(rng.choice('abcdefgh_') for _ in range(rng.randint(3, 9))))
    return sorted(out)


def run(ctx):
    rng = ctx.rng
    n = 350 if ctx.quick else 12000
    cases = []
    for it in range(n):
        form, arg, opts, size, seed = M.gen_case(rng, R)
        if it % 12 == 0:
            # the per-fragment string cap (max_strings_in_group) is a boundary: one shape shared by 9..15 strings,
            # in generation order (constant part first), compared below with shuffled / reversed orders
            form, arg, size = 'list', R.gen_bulk(rng) + [R.gen_string(rng) for _ in range(rng.choice([0, 2]))], None
        if isinstance(arg, dict):
            arg = [s for s, k in arg.items() for _ in range(k)]
            rng.shuffle(arg)
        arg = [s for s in arg if s is not None]
        sampling = size is not None
        if sampling and seed is None:
            seed = rng.choice([0, 5])
        case = {'examples': repr(arg)[:2000], 'opts': opts, 'size': size, 'seed': seed}
        ctx.count(repr(case), len(set(arg)) > 1)
        try:
            st0 = random.getstate()
            base, rec, x = run_plain(list(arg), opts, size, seed)
            st1 = random.getstate()
        except Exception as e:
            ctx.fail(case, 'Extractor raised %s: %s' % (type(e).__name__, str(e)[:200]))
            continue
        cases.append((case, list(arg), opts, size, x, rec))
        ctx.bump('sampling_forced.%s' % sampling)
        ctx.bump('samples_drawn.%d' % min(len(rec.samples), 3))
        # ---- generator protocol: trace predicted by Rexpy/Prng.v, state restored when seeded
        if ctx.model_ok:
            k_init = 0
            # the initial sample is drawn before the first find_non_matches of extract(): count samples in phase 1
            ev = rec.events
            if seed is not None:
                # phases are delimited by setstate
                first_end = ev.index(3) if 3 in ev else len(ev)
                k_init = ev[:first_end].count(2)
            else:
                k_init = 0 if not rec.samples else None
            if k_init is not None:
                k2 = ev.count(2) - k_init
                want = ctx.model.call(22, [[] if seed is None else [seed], k_init, k2])
                ctx.cov['traces_validated_against_impl'] += 1
                if list(want) != list(ev):
                    ctx.mismatch('prng-protocol', case, list(want), list(ev))
        if seed is not None and st0 != st1:
            ctx.fail(case, 'the global random generator state differs after a seeded call')
        # ---- repeating the call (same process, after an unrelated call)
        try:
            # (unrelated calls that differ from this one in options a shared cache could be keyed on too coarsely)
            run_plain(['zz-1', 'q'], {})
            run_plain(['a b', 'c d.e'], dict({k: v for k, v in opts.items() if k in ('dialect', 'extra_letters')},
                                             full_escape=not opts.get('full_escape', False)))
            again, _, _ = run_plain(list(arg), opts, size, seed)
        except Exception as e:
            ctx.fail(case, 'second call raised %s' % type(e).__name__)
            continue
        if seed is not None or not sampling:
            if again != base:
                ctx.fail(case, 'repeating the call gives %r, first call gave %r' % (again, base))
        # ---- the caller's own Size object, used for this call and then again for the same call (as a program that keeps
        #      one settings object does): same expressions both times, and the same as with a fresh equal object
        if sampling and seed is not None:
            import tdda.rexpy.rexpy as rx
            import contextlib, io
            try:
                sz = rx.Size(**size)
                outs_ = []
                if rng.random() < 0.5:
                    # (an unrelated small call with the same settings object first)
                    with contextlib.redirect_stdout(io.StringIO()):
                        rx.Extractor(['ab', 'cd'], size=sz, seed=seed)
                for rep in (1, 2, 3):
                    with contextlib.redirect_stdout(io.StringIO()):
                        xs_ = rx.Extractor(list(arg), size=sz, seed=seed, **opts)
                    outs_.append(rexes_of(xs_))
                ctx.bump('size_object_reused')
                if not (outs_[0] == outs_[1] == outs_[2] == base):
                    ctx.fail(dict(case, reused_size_object=True), 'three calls sharing one Size object give %r, %r and %r; a call '
                             'with a fresh equal Size gave %r' % (outs_[0], outs_[1], outs_[2], base))
            except Exception as e:
                ctx.fail(case, 'calls sharing one Size object raised %s: %s' % (type(e).__name__, str(e)[:200]))
        # ---- the documented two-step use: construct without extracting, let the program use the generator,
        #      then extract (twice): same expressions, and a seeded extract() leaves the generator as it found it
        if it % 3 == 0:
            import tdda.rexpy.rexpy as rx
            try:
                import contextlib, io
                with contextlib.redirect_stdout(io.StringIO()):
                    x2 = rx.Extractor(list(arg), extract=False, size=rx.Size(**size) if size else None, seed=seed, **opts)
                    for rep in (1, 2):
                        random.random()
                        s_before = random.getstate()
                        x2.extract()
                        s_after = random.getstate()
                        got = rexes_of(x2)
                        ctx.bump('two_step_extracts')
                        if seed is not None and s_before != s_after:
                            ctx.fail(dict(case, two_step=rep), 'Extractor(extract=False, seed=%r) then the program draws a random '
                                     'number then x.extract() (call %d): the global generator state differs after the '
                                     'call from before it' % (seed, rep))
                        if (seed is not None or not sampling) and got != base:
                            ctx.fail(dict(case, two_step=rep), 'Extractor(extract=False) + extract() (call %d) gives %r, '
                                     'the one-step call gave %r' % (rep, got, base))
            except Exception as e:
                ctx.fail(case, 'two-step extraction raised %s: %s' % (type(e).__name__, str(e)[:200]))
        # ---- the same call as the FIRST call of a fresh process (nothing cached by earlier calls) gives the same
        #      expressions: results must not depend on what rexpy was asked before
        if it % 50 == 3 and (seed is not None or not sampling):
            try:
                fresh = fresh_process_rexes(arg, opts, size, seed)
                ctx.bump('fresh_process_comparisons')
                if fresh != base:
                    ctx.fail(case, 'as the first call of a fresh process the expressions are %r; in this process, after other '
                             'rexpy calls, they are %r' % (fresh, base))
            except (UnicodeEncodeError, ValueError, IndexError):
                pass
        if sampling:
            continue            # order / multiplicity comparisons below are for unsampled sizes
        # ---- reordering
        perm = list(arg)
        rng.shuffle(perm)
        got, _, _ = run_plain(perm, opts, size, seed)
        if got != base:
            ctx.fail(dict(case, reordered=repr(perm)[:2000]), 'reordering the examples gives %r instead of %r' % (got, base))
        got, _, _ = run_plain(list(reversed(arg)), opts, size, seed)
        if got != base:
            ctx.fail(dict(case, reordered='reversed'), 'reversing the examples gives %r instead of %r' % (got, base))
        # ---- frequency dictionary instead of list
        cnt = {}
        for s in perm:
            cnt[s] = cnt.get(s, 0) + 1
        got, _, _ = run_plain(cnt, opts, size, seed)
        if got != base:
            ctx.fail(dict(case, as_dict=repr(cnt)[:2000]), 'a frequency dictionary gives %r, the list gave %r' % (got, base))
        # ---- ... also when it lists further strings with count 0 (a Counter after subtract()): supplied zero times
        cntz = collections.Counter(cnt)
        for _ in range(rng.choice([1, 2, 3])):
            z = R.gen_string(rng)
            if z is not None and z not in cntz:
                cntz[z] = 0
        zform = rng.choice([dict, collections.Counter])
        got, _, _ = run_plain(zform(cntz), opts, size, seed)
        ctx.bump('zero_count_entries.%d' % (len(cntz) - len(cnt)))
        if got != base:
            ctx.fail(dict(case, as_dict=repr(dict(cntz))[:2000]),
                     'a frequency dictionary with zero-count entries gives %r, the list gave %r' % (got, base))
        # ---- Series forms (pdextract takes the distinct non-null values, default options): object column with
        #      nulls, and a categorical column that still declares categories no row uses (a filtered subset)
        if it % 4 == 1 and arg:
            import pandas as pd
            import tdda.rexpy.rexpy as rx
            try:
                want, _, _ = run_plain(list(dict.fromkeys(arg)), {})
                ser = pd.Series(list(arg) + [None], dtype=object)
                extra_cats = list(dict.fromkeys(z for z in (R.gen_string(rng) for _ in range(2)) if z is not None and z not in arg))
                cat = pd.Series(pd.Categorical(list(arg), categories=list(dict.fromkeys(arg)) + extra_cats))
                for form, sr in (('object Series with a null', ser), ('categorical Series with unused categories', cat)):
                    got = rx.pdextract(sr)
                    ctx.bump('series_form')
                    if list(got) != list(want):
                        ctx.fail(dict(case, series_form=form, unused_categories=repr(extra_cats)),
                                 'pdextract of the %s gives %r, the list of its values gives %r' % (form, got, want))
            except Exception as e:
                ctx.fail(case, 'Series form raised %s: %s' % (type(e).__name__, str(e)[:200]))
        # ---- other ways in: the module-level extract() with encoded examples, and rexpy_streams() with a list (with
        #      and without a header line), called twice on the caller's own list: always the list form's expressions
        if it % 2 == 0 and arg and all('\x00' not in s_ for s_ in arg):
            import tdda.rexpy.rexpy as rx
            import contextlib, io
            prune = rng.choice([{}, {'min_strings_per_pattern': rng.choice([2, 3])}, {'max_patterns': rng.choice([1, 2])}])
            try:
                with contextlib.redirect_stdout(io.StringIO()):
                    want_l = rx.extract(list(arg), seed=seed, **dict(opts, **prune))
                    enc = rng.choice(['utf-8', 'utf-16-le'])
                    got_b = rx.extract([s_.encode(enc, 'surrogatepass') for s_ in arg], encoding=enc, seed=seed, **dict(opts, **prune))
                    mine = ['header line'] + list(arg)
                    keep = list(mine)
                    got_s1 = rx.rexpy_streams(mine, out_path=False, skip_header=True, seed=seed, **dict(opts, **prune))
                    got_s2 = rx.rexpy_streams(mine, out_path=False, skip_header=True, seed=seed, **dict(opts, **prune))
                    got_s3 = rx.rexpy_streams(list(arg), out_path=False, seed=seed, **dict(opts, **prune))
                ctx.bump('other_entry_points')
                pcase = dict(case, opts=dict(opts, **prune))
                if list(got_b) != list(want_l):
                    ctx.fail(dict(pcase, form='list of bytes, encoding=%s' % enc), 'encoded examples give %r, the same strings as text give %r' % (got_b, want_l))
                if not (list(got_s1) == list(got_s2) == list(got_s3) == list(want_l)) or mine != keep:
                    ctx.fail(dict(pcase, form='rexpy_streams(list)'), 'rexpy_streams on the list (header skipped, twice; no header) gives %r, %r, %r; '
                             'extract gives %r; the caller\'s list %s' % (got_s1, got_s2, got_s3, want_l,
                                                                         'is unchanged' if mine == keep else 'was changed to %r' % mine[:6]))
            except Exception as e:
                ctx.fail(case, 'extract(encoding=) / rexpy_streams(list) raised %s: %s' % (type(e).__name__, str(e)[:200]))
        # ---- repeating an example changes nothing
        if arg:
            more = list(arg) + [rng.choice(arg)] * rng.choice([1, 2, 7])
            got, _, _ = run_plain(more, opts, size, seed)
            if got != base:
                ctx.fail(dict(case, repeated=repr(more)[:2000]), 'repeating an example gives %r instead of %r' % (got, base))
        if len(ctx.cov['samples']) < 3:
            ctx.sample({'case': case, 'rex': base})
    M.compare_with_model(ctx, cases)
    # where the model and the implementation disagree on the expressions, look for a concrete failing input:
    # does this process (after other rexpy calls) give other expressions than a fresh one?
    odd = [m['case'] for m in ctx.mismatches if m and m.get('layer') == 'extractor']
    tried = 0
    for (case, arg, opts, size, x, rec) in cases:
        if tried >= 4 or not any(case is c for c in odd):
            continue
        if case.get('seed') is None and size is not None:
            continue
        tried += 1
        try:
            fresh = fresh_process_rexes(arg, opts, size, case.get('seed'))
        except Exception:
            continue
        here = rexes_of(x)
        if fresh != here:
            ctx.fail(case, 'as the first call of a fresh process the expressions are %r; in this process, after other '
                     'rexpy calls, they are %r' % (fresh, here))
    # ---- inputs larger than the default sampling thresholds, with a seed
    import tdda.rexpy.rexpy as rx
    for it in range(2 if ctx.quick else 12):
        big = big_input(rng, rng.choice([4200, 4500]))
        seed = rng.choice([0, 1, 99])
        opts = rng.choice([{}, {'extra_letters': '_'}, {'dialect': 'perl'}])
        case = {'examples': 'big_input(%d strings)' % len(big), 'opts': opts, 'seed': seed}
        st0 = random.getstate()
        a = rx.extract(list(big), seed=seed, **opts)
        st1 = random.getstate()
        random.random()
        b = rx.extract(list(big), seed=seed, **opts)
        ctx.count(repr(case), True)
        ctx.bump('big_inputs')
        if a != b:
            ctx.fail(case, 'seeded extraction of %d strings is not reproducible: %r vs %r' % (len(big), a, b))
        if st0 != st1:
            ctx.fail(case, 'the global random generator state differs after a seeded call on %d strings' % len(big))
        # ---- the Series form of the same large input, with the seed: same expressions as the list form (default
        #      options), and the global generator left as it was
        import pandas as pd
        want = rx.extract(list(big), seed=seed)
        st2 = random.getstate()
        got = rx.pdextract(pd.Series(list(big), dtype=object), seed=seed)
        st3 = random.getstate()
        ctx.bump('big_series_form')
        if list(got) != list(want):
            ctx.fail(dict(case, form='Series'), 'seeded pdextract of %d strings gives %r, the list form gives %r' % (len(big), got, want))
        if st2 != st3:
            ctx.fail(dict(case, form='Series'), 'the global random generator state differs after a seeded pdextract on %d strings' % len(big))
    ctx.cov['rule'] = ('multisets x options x dialect; unsampled sizes: shuffled / reversed / frequency-dictionary / '
                       'with-repeats variants must give the same list; sampled sizes (forced by Size, and > 4000 distinct '
                       'strings): seeded reproducibility, global generator state, generator call trace vs Prng.v')
    ctx.assumptions += ['random.getstate() equality decides "same generator state"']


def replay(ctx, data):
    print(data.get('what'))
    return 0
