"""C12 - gentest: the generated test fails when the command behaves differently, each change being reported by the
test for that stream, file or status, and keeps passing when nothing has changed.
Real `tdda gentest` runs in sandbox directories; afterwards the command is rewritten to behave differently in exactly
one aspect (stdout, stderr, exit status, content of each output file, each output file missing) and the generated
script is re-run. (K) the extracted model Gentest/Script.v, given the ignore-substrings found in the generated script,
predicts the outcome of every generated test for every behaviour; (S) the failing tests must be exactly the test of
the changed aspect (unless the changed reference line carries a generated ignore-substring - the tool's design)."""
import os
import re
import shutil

import lib
from props import gent as G


def stream_test(tests, target):
    for name, info in tests.items():
        if info.get('kind') == 'String' and info.get('actual') == ('self.output' if target == 'stdout' else 'self.error'):
            return name
    return None


def file_test(tests, fname):
    for name, info in tests.items():
        if info.get('kind') in ('TextFile', 'BinaryFile') and info.get('actual', '').rstrip("')").endswith('/' + fname):
            return name
    return None


def one_case(args):
    i, seed, base = args
    import random
    rng = random.Random(seed)
    d = os.path.join(base, 'case%d' % i)
    shutil.rmtree(d, ignore_errors=True)
    os.makedirs(os.path.join(d, 'outdir'))
    beh = G.gen_behaviour(rng)
    if not beh['files'] and rng.random() < 0.7:
        beh['files']['out.txt'] = (True, b'alpha\nbeta\n')
    if beh['files'] and i % 6 == 2:
        # one output is a symbolic link to a file kept elsewhere (its content is what the test must watch)
        beh['link'] = [sorted(beh['files'])[0]]
    if beh['files'] and i % 4 == 1:
        beh['stamp'] = [n_ for n_ in sorted(beh['files']) if n_ not in beh.get('link', ())][:2]
    G.write_command(d, beh)
    flags = ['-Z'] if beh['code'] != 0 else []
    if rng.random() < 0.25:
        flags += ['-n', rng.choice(['1', '3'])]
    res = {'i': i, 'dir': d, 'behaviour': {k: (v if k != 'files' else {n: [t, len(b)] for n, (t, b) in v.items()}) for k, v in beh.items()},
           'flags': flags, 'problems': [], 'runs': []}
    if rng.random() < 0.5:
        # the command has already been run by hand: its outputs exist before the test is generated
        import subprocess
        subprocess.run(['sh', 'cmd.sh'], cwd=d, env=G.env_for(d), stdout=subprocess.DEVNULL, stderr=subprocess.DEVNULL)
        res['prerun'] = True
    command = G.gen_command(rng)
    offline = rng.random() < 0.3
    res['offline'] = offline
    rc, out = G.run_gentest(d, 'test_cmd.py', flags, ['outdir'], command, offline=offline)
    if rc != 0:
        res['problems'].append('test generation failed (exit %s): %s' % (rc, out[-500:]))
        return res
    spath = os.path.join(d, 'test_cmd.py')
    tests, dup = G.script_tests(spath)
    if dup:
        res['problems'].append('the script defines %r more than once' % dup)
    res['tests'] = tests
    # substrings the generated tests ignore that look like numeric dates (checked against the date model in run())
    res['date_subs'] = sorted(set(s_ for inf_ in tests.values() for s_ in inf_.get('substrings', [])
                                  if isinstance(s_, str) and re.match(r'^\d{1,4}[/.-]\d{1,2}[/.-]\d{1,4}$', s_)))
    kinds = ['none', 'stdout', 'stderr', 'exit'] + ['file:' + n for n in sorted(beh['files'])] + ['missing:' + n for n in sorted(beh['files'])]
    rng.shuffle(kinds)
    for kind in kinds[:5] + (['none'] if 'none' not in kinds[:5] else []):
        new = G.mutate_behaviour(rng, beh, kind) if kind != 'none' else beh
        G.write_command(d, new)
        rc2, results, out2 = G.run_script(d, 'test_cmd.py')
        failing = sorted(k for k, v in results.items() if v != 'ok')
        o_ref, e_ref = G.abstract_outputs(d, beh)
        o_new, e_new = G.abstract_outputs(d, new)
        res['runs'].append({'kind': kind, 'failing': failing, 'ntests': len(results), 'rc': rc2, 'tail': out2[-400:],
                            'ref': [beh['code'], o_ref, e_ref], 'new': [new['code'], o_new, e_new],
                            'ref_files': {n: [t, b.decode('latin-1')] for n, (t, b) in beh['files'].items()},
                            'new_files': {n: [t, b.decode('latin-1')] for n, (t, b) in new['files'].items()}})
    G.write_command(d, beh)
    return res


def special_case(args):
    """commands outside the behaviour generator: output that is not valid UTF-8, and a large file that is ASCII at
    the head and binary only after 64 KB.  Returns (what, problem or None)."""
    i, seed, base = args
    import random
    import subprocess
    rng = random.Random(seed)
    d = os.path.join(base, 'special%d' % i)
    shutil.rmtree(d, ignore_errors=True)
    os.makedirs(os.path.join(d, 'outdir'))
    pay = os.path.join(d, '.payload')
    os.makedirs(pay)
    kind = ['stdout-bytes', 'stderr-bytes', 'bighead'][i % 3]
    a, b = rng.choice([(b'\xe9', b'\xe8'), (b'\xa3', b'\x80'), (b'\xff', b'\xfe')])
    tail_a, tail_b = b'\x00\x01\x0b\x02\xff' * 20, b'\x00\x01\x0c\x02\xff' * 20

    def write(which):
        if kind == 'bighead':
            body = (b'# capture file, ascii header\n' + b'0123456789 abcdefghij\n' * 3300)[:70000]
            with open(os.path.join(pay, 'cap'), 'wb') as f:
                f.write(body + (tail_a if which == 0 else tail_b))
            script = '#!/bin/sh\necho done\ncp %s %s\nexit 0\n' % (G.sh_quote(os.path.join(pay, 'cap')),
                                                                     G.sh_quote(os.path.join(d, 'outdir', 'capture.dat')))
        else:
            with open(os.path.join(pay, 'msg'), 'wb') as f:
                f.write(b'total caf' + (a if which == 0 else b) + b' 5\nsecond line\n')
            script = '#!/bin/sh\ncat %s%s\nexit 0\n' % (G.sh_quote(os.path.join(pay, 'msg')), ' 1>&2' if kind == 'stderr-bytes' else '')
        with open(os.path.join(d, 'cmd.sh'), 'w') as f:
            f.write(script)
    write(0)
    rc, out = G.run_gentest(d, 'test_cmd.py', [], ['outdir'], 'sh cmd.sh')
    if rc != 0 or not os.path.exists(os.path.join(d, 'test_cmd.py')):
        return kind, 'declined', None        # no test, so nothing can wrongly pass
    rc1, res1, out1 = G.run_script(d, 'test_cmd.py')
    if rc1 != 0:
        return kind, 'generated', 'nothing changed but the generated test fails: %s' % out1[-300:]
    write(1)
    rc2, res2, out2 = G.run_script(d, 'test_cmd.py')
    failing = sorted(k for k, v in res2.items() if v != 'ok')
    want = {'stdout-bytes': 'test_stdout', 'stderr-bytes': 'test_stderr', 'bighead': 'test_capture_dat'}[kind]
    if want not in failing:
        return kind, 'generated', ('the command now behaves differently (%s: bytes %r instead of %r) but %s does not fail (failing: %r)'
                                   % (kind, (tail_b[:5] if kind == 'bighead' else b), (tail_a[:5] if kind == 'bighead' else a), want, failing))
    return kind, 'generated', None


def two_scripts_case(args):
    """two commands that each write a file under $TMPDIR, a generated script for each, both scripts in ONE test process
    (python -m unittest a b imports both before it runs either): nothing changed -> every test passes; one command
    changed -> only its own file test fails.  Returns (what, problem or None)."""
    i, seed, base = args
    import random
    import subprocess
    rng = random.Random(seed)
    d = os.path.join(base, 'two%d' % i)
    shutil.rmtree(d, ignore_errors=True)
    os.makedirs(os.path.join(d, 'outdir'))

    def write(name, value):
        with open(os.path.join(d, '%s.sh' % name), 'w') as f:
            f.write('#!/bin/sh\necho %s ran\nprintf \'value %s\\n\' > "$TMPDIR"/%s_out.txt\nexit 0\n' % (name, value, name))
    names = ['alpha', 'beta'] + (['gamma'] if rng.random() < 0.4 else [])
    for nm in names:
        write(nm, 1)
        rc, out = G.run_gentest(d, 'test_%s.py' % nm, ['-n', rng.choice(['1', '2'])], [], 'sh %s.sh' % nm)
        if rc != 0 or not os.path.exists(os.path.join(d, 'test_%s.py' % nm)):
            return 'two-scripts', 'declined', None

    def run_all():
        for attempt in range(3):
            p = subprocess.run([G.PY, '-m', 'unittest', '-v'] + ['test_%s' % nm for nm in names], cwd=d, env=G.env_for(d),
                               stdout=subprocess.PIPE, stderr=subprocess.STDOUT, text=True, errors='replace', timeout=300)
            if p.returncode >= 0:
                break       # (death by signal at interpreter teardown under load: run it again)
        bad = sorted(set(m.group(2) + '.' + m.group(1) for m in re.finditer(r'^(?:FAIL|ERROR): (\w+) \((\w+)\.', p.stdout, flags=re.M)))
        ran = re.search(r'^Ran (\d+) tests?', p.stdout, flags=re.M)
        return p.returncode, bad, int(ran.group(1)) if ran else 0, p.stdout
    rc1, bad1, n1, out1 = run_all()
    if rc1 != 0 or bad1 or n1 == 0:
        return 'two-scripts', 'generated', ('nothing changed, but with the %d generated scripts run in one process %r fail (%d tests ran): %s'
                                            % (len(names), bad1, n1, out1[-300:]))
    changed = rng.choice(names)
    write(changed, 2)
    rc2, bad2, n2, out2 = run_all()
    want = 'test_%s.test_%s_out_txt' % (changed, changed)
    if bad2 != [want]:
        return 'two-scripts', 'generated', ('the command of %s now writes another value; in one process with the other scripts the failing '
                                            'tests are %r, expected just %r' % (changed, bad2, want))
    return 'two-scripts', 'generated', None


def run(ctx):
    base = os.path.join(lib.WORK, 'c12')
    shutil.rmtree(base, ignore_errors=True)
    os.makedirs(base)
    for kind, how, problem in G.pmap(special_case, [(i, ctx.rng.randrange(1 << 30), base) for i in range(6 if ctx.quick else 60)]):
        ctx.count(('special', kind, how, repr(problem)), True)
        ctx.bump('special.%s.%s' % (kind, how))
        if problem:
            ctx.fail({'special': kind}, problem)
    for kind, how, problem in G.pmap(two_scripts_case, [(i, ctx.rng.randrange(1 << 30), base) for i in range(4 if ctx.quick else 40)]):
        ctx.count(('special', kind, how, repr(problem)), True)
        ctx.bump('special.%s.%s' % (kind, how))
        if problem:
            ctx.fail({'special': kind}, problem)
    n = 20 if ctx.quick else 500
    seeds = [ctx.rng.randrange(1 << 30) for _ in range(n)]
    results = G.pmap(one_case, [(i, s, base) for i, s in enumerate(seeds)])
    payloads, meta = [], []
    # ---- every date-like substring a generated test ignores is a date by the (proved) date detector of Gentest/DateLike.v,
    # for the window gentest uses (the day of generation, give or take a day): anything else excuses lines it must not
    if ctx.model_ok:
        import datetime as _dt
        t0 = _dt.date.today()
        lo_, hi_ = t0 - _dt.timedelta(days=2), t0 + _dt.timedelta(days=2)
        win = [[[lo_.year, lo_.month, lo_.day], [hi_.year, hi_.month, hi_.day]]]
        for r in results:
            for sub_ in r.get('date_subs', []):
                a_, b_, c_ = [int(x_) for x_ in re.split(r'[/.-]', sub_)]
                o_ = ctx.model.call(25, [win, a_, b_, c_])
                ctx.bump('date_substrings_checked')
                if not bool(o_[0]):
                    ctx.fail({'behaviour': r.get('behaviour'), 'flags': r.get('flags'), 'ignored_substring': sub_},
                             'the generated test ignores every line containing %r, which is not a date near the day of generation '
                             '(a later change on such a line would go unnoticed)' % sub_)
    for r in results:
        case = {k: r.get(k) for k in ('behaviour', 'flags', 'prerun', 'offline')}
        for p in r['problems']:
            ctx.count(repr(case), True)
            ctx.fail(case, p)
        tests = r.get('tests', {})
        for run_ in r['runs']:
            kind = run_['kind']
            c = dict(case, change=kind)
            ctx.count(repr(c), kind != 'none')
            ctx.bump('change.' + kind.split(':')[0])
            failing = run_['failing']
            # ---- the property
            if kind == 'none':
                if failing or run_['rc'] != 0:
                    ctx.fail(c, 'nothing changed but the generated test fails: %r %s' % (failing, run_['tail'][-200:]))
            else:
                if kind == 'exit':
                    want = 'test_exit_code'
                elif kind in ('stdout', 'stderr'):
                    want = stream_test(tests, kind)
                else:
                    want = file_test(tests, kind.split(':', 1)[1])
                excused = False
                if kind in ('stdout', 'stderr') and want:
                    # the changed reference line may carry a generated ignore-substring (date, directory ...)
                    subs = [s for s in tests[want]['substrings'] if isinstance(s, str)]
                    ref_lines = (run_['ref'][1] if kind == 'stdout' else run_['ref'][2]).splitlines()
                    new_lines = (run_['new'][1] if kind == 'stdout' else run_['new'][2]).splitlines()
                    diffs = [a for a, b in zip(ref_lines, new_lines) if a != b]
                    excused = len(ref_lines) == len(new_lines) and all(any(s in a for s in subs) for a in diffs)
                if want is None:
                    if kind in ('stdout', 'stderr'):
                        continue      # stream not checked (flag)
                    ctx.fail(c, 'no generated test checks %s' % kind)
                elif excused:
                    ctx.bump('excused_by_substring')
                elif want not in failing:
                    ctx.fail(c, 'the command now behaves differently (%s) but %s does not fail (failing: %r)' % (kind, want, failing))
                elif failing != [want]:
                    ctx.fail(c, 'a change of %s alone makes %r fail, not just %s' % (kind, failing, want))
            # ---- the model's prediction for every generated test
            stests = [(nm, inf) for nm, inf in tests.items()]
            subs_table = []
            files_ref, files_new = [], []
            for nm, inf in stests:
                if inf.get('kind') == 'String':
                    key = 'stdout' if inf['actual'] == 'self.output' else 'stderr'
                    subs_table.append([key, [s.replace('<orig_tmpdir>', '\0') for s in inf['substrings']]])
            for fname, (t, data) in sorted(run_['ref_files'].items()):
                tn = file_test(tests, fname)
                if tn is None:
                    continue
                is_text = tests[tn]['kind'] == 'TextFile'
                subs_table.append([fname, tests[tn]['substrings']])
                files_ref.append([fname, is_text, [data]])
                nf = run_['new_files'].get(fname)
                files_new.append([fname, is_text, [nf[1]] if nf else []])
            cs = stream_test(tests, 'stdout') is not None
            ce = stream_test(tests, 'stderr') is not None
            payloads.append([cs, ce, subs_table, [run_['ref'][0], run_['ref'][1], run_['ref'][2], files_ref],
                             [run_['new'][0], run_['new'][1], run_['new'][2], files_new]])
            meta.append((c, tests, failing))
    if ctx.model_ok and payloads:
        outs = ctx.model.call_many(28, payloads)
        for (c, tests, failing), o in zip(meta, outs):
            ctx.cov['traces_validated_against_impl'] += 1
            pred = []
            for chk, ok in o:
                if ok:
                    continue
                k = chk[0]
                if k == 1:
                    pred.append('test_exit_code')
                elif k == 2:
                    pred.append(stream_test(tests, 'stdout'))
                elif k == 3:
                    pred.append(stream_test(tests, 'stderr'))
                elif k == 4:
                    pred.append(file_test(tests, lib.dstr(chk[1])))
            if sorted(x for x in pred if x) != failing:
                ctx.mismatch('generated-test-outcomes', c, sorted(x for x in pred if x), failing)
    if results and len(ctx.cov['samples']) < 2:
        ctx.sample({'behaviour': results[0]['behaviour'], 'runs': [{k: r[k] for k in ('kind', 'failing')} for r in results[0]['runs']]})
    shutil.rmtree(base, ignore_errors=True)
    ctx.cov['rule'] = ('as C11 (deterministic commands with text/binary output files, colliding names, special characters) '
                       'then one change at a time: stdout, stderr, exit status, each file changed, each file missing, and no change')
    ctx.assumptions += ['unittest decides pass/fail of each generated test; file typing (text/binary) is read from the generated script']


def replay(ctx, data):
    print(data.get('what'))
    return 0
