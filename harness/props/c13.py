import shutil
import os
import io
import contextlib
"""C13 - every expression rexpy returns compiles, is anchored, matches at least one example, is returned once,
and there are never more expressions than distinct examples; capture-group tagging changes only the grouping.
(K) the extracted model of the Extractor replays each real run (exact expressions); (S) the property itself on the
returned expressions, with tagged and untagged runs of the same input compared on the examples and on near-miss
probe strings."""
import re
import warnings

import lib
from props import rex as R
from props import rexmodel as M

warnings.filterwarnings('ignore', category=FutureWarning)


def anchored(r):
    if not r.startswith('^') or not r.endswith('$'):
        return False
    body = r[:-1]
    k = len(body) - len(body.rstrip('\\'))
    return k % 2 == 0          # the final $ is not an escaped literal


def probes(rng, strings):
    out = set(strings)
    pool = list('aZ0-_. ^$\\[]') + ['é', '٣', '\n', '']
    for s in list(strings)[:12]:
        for _ in range(4):
            t = list(s)
            op = rng.choice(['del', 'ins', 'sub', 'dup'])
            if op == 'ins' or not t:
                t.insert(rng.randint(0, len(t)), rng.choice(pool))
            else:
                i = rng.randrange(len(t))
                if op == 'del':
                    del t[i]
                elif op == 'sub':
                    t[i] = rng.choice(pool)
                else:
                    t.insert(i, t[i])
            out.add(''.join(t))
    out.update(['', ' ', 'a', '1', '\n'])
    return sorted(out)


def check_expressions(ctx, case, arg, opts, rexes, pruned=False):
    want = R.cleaned(arg, opts)
    strings = list(want.keys())
    if len(rexes) != len(set(rexes)):
        ctx.fail(case, 'an expression is returned twice: %r' % (rexes,))
    if len(rexes) > len(strings):
        ctx.fail(case, '%d expressions for %d distinct examples: %r' % (len(rexes), len(strings), rexes))
    if not strings and rexes:
        ctx.fail(case, 'expressions %r returned for an empty input' % (rexes,))
    for r in rexes:
        try:
            cp = re.compile(r, R.RE_FLAGS)
        except re.error as e:
            ctx.fail(case, 'expression %r does not compile: %s' % (r, e))
            continue
        if not anchored(r):
            ctx.fail(case, 'expression %r is not anchored with ^ and $' % r)
        if not any(cp.match(s) for s in strings):
            cls = None
            if opts.get('dialect', 'portable') in ('portable', 'grep') and \
                    any(re.match(r'\d', ch) and not ('0' <= ch <= '9') for s in strings for ch in s):
                cls = 'c13-portable-digits'
            ctx.fail(dict(case, expression=r), 'expression %r matches none of the examples %r' % (r, strings[:12]),
                     finding=cls)


def run(ctx):
    rng = ctx.rng
    M.escape_sweep(ctx, 200 if ctx.quick else 2000)
    n = 600 if ctx.quick else 25000
    cases = []
    stream = [M.gen_case(rng, R) for _ in range(n)]
    # every variable-length / long-run family of the generator once with variable-length fragments on and off
    for fam_ in [['ab1234-cd', 'ab-cd1234', 'ef-gh5678', 'xy9999-zz'], ['k77777-m', 'k-m88888', 'p-q'], ['https', 'http'],
                 ['ab', 'cd1234', 'ef12', 'gh123456'], ['x', 'y12345', 'z1'], ['q7777777', 'r', 's77'],
                 ['a' * 256 + '-1', 'b' * 257 + '-2', 'c' * 256 + '-3'], ['0f' * 128, 'e1' * 128, 'ab' * 129]]:
        for vl_ in (False, True):
            stream.append(('list', list(fam_), {'variableLengthFrags': vl_, 'dialect': rng.choice(['perl', 'portable', 'grep']),
                                               'tag': rng.random() < 0.3}, None, None))
    stream += [('list', [], {}, None, None), ('list', [None], {}, None, None), ('dict', {'a': 0}, {}, None, None),
               ('list', ['', ' '], {'strip': True, 'remove_empties': True}, None, None)]
    for form, arg, opts, size, seed in stream:
        if size and seed is None:
            seed = 11        # the tagged and untagged runs must draw the same samples
        case = {'form': form, 'examples': repr(arg)[:2000], 'opts': opts, 'size': size, 'seed': seed}
        x, rec = M.run_impl(arg, opts, size, seed)
        ctx.count(repr(case), True)
        if isinstance(x, Exception):
            ctx.fail(case, 'Extractor raised %s: %s' % (type(x).__name__, str(x)[:200]))
            continue
        rexes = list(x.results.rex) if x.results else []
        ctx.bump('nrex.%d' % min(len(rexes), 5))
        ctx.bump('tag.%s' % bool(opts.get('tag')))
        check_expressions(ctx, case, arg, opts, rexes)
        cases.append((case, arg, opts, size, x, rec))
        # the same input with the opposite tagging: same number of expressions, same match sets
        other = dict(opts, tag=not opts.get('tag'))
        y, _ = M.run_impl(arg, other, size, seed)
        if isinstance(y, Exception):
            ctx.fail(dict(case, opts=other), 'Extractor raised %s with tag flipped' % type(y).__name__)
            continue
        orex = list(y.results.rex) if y.results else []
        tagged, plain = (rexes, orex) if opts.get('tag') else (orex, rexes)
        if len(tagged) != len(plain):
            ctx.fail(case, 'tagging changes the number of expressions: %r vs %r' % (tagged, plain))
            continue
        want_set = set(R.cleaned(arg, opts).keys())
        ps = probes(rng, [s for s in want_set if len(s) <= 40]) + [s for s in want_set if len(s) > 40]
        for t, p in zip(tagged, plain):
            try:
                ct, cp = re.compile(t, R.RE_FLAGS), re.compile(p, R.RE_FLAGS)
            except re.error:
                continue
            # near-miss probes can make a long, ambiguous expression backtrack for ever: probe short ones only
            qs = ps if len(p) <= 120 else [s for s in ps if s in want_set]
            diff = [s for s in qs if (ct.match(s) is None) != (cp.match(s) is None)]
            if diff:
                ctx.fail(dict(case, tagged=t, untagged=p), 'tagged %r and untagged %r disagree on %r' % (t, p, diff[:5]))
            if re.sub(r'(?<!\\)[()]', '', t.replace('\\\\', '\0\0')).replace('\0\0', '\\\\') != \
                    re.sub(r'(?<!\\)[()]', '', p.replace('\\\\', '\0\0')).replace('\0\0', '\\\\'):
                ctx.fail(dict(case, tagged=t, untagged=p), 'tagged %r differs from untagged %r by more than parentheses' % (t, p))
            ctx.cov['evaluations'] += len(ps)
        # ---- max_patterns / min_strings_per_pattern: pruning only removes expressions, and removes the right ones.
        # Every supplied example counts (with its repeats) for the first returned expression that matches it; an
        # expression is dropped exactly when it counts fewer than min_strings_per_pattern strings, or when more than
        # max_patterns expressions count more (the same run without the two settings says what there was to prune).
        if len(rexes) >= 2 and (not size or seed is not None) and rng.random() < 0.6:
            kmin = rng.choice([1, 2, 2, 3])
            mmax = rng.choice([None, None, 1, 2, 3])
            if kmin > 1 or mmax is not None:
                popts = dict(opts, min_strings_per_pattern=kmin)
                if mmax is not None:
                    popts['max_patterns'] = mmax
                pcase = dict(case, opts=popts)
                z, zrec = M.run_impl(arg, popts, size, seed)
                ctx.count(repr(pcase), True)
                ctx.bump('pruning.min%d.max%s' % (kmin, mmax))
                if isinstance(z, Exception):
                    ctx.fail(pcase, 'Extractor raised %s with pruning settings' % type(z).__name__)
                else:
                    prex = list(z.results.rex) if z.results else []
                    check_expressions(ctx, pcase, arg, popts, prex, pruned=True)
                    cases.append((pcase, arg, popts, size, z, zrec))
                    wc = R.cleaned(arg, opts)
                    credit = [0] * len(rexes)
                    ok_ = True
                    for s_, n_ in wc.items():
                        for j_, r_ in enumerate(rexes):
                            try:
                                hit = R.matches(r_, s_)
                            except re.error:
                                ok_ = False
                                break
                            if hit:
                                credit[j_] += n_
                                break
                    if ok_:
                        keep = [j_ for j_ in range(len(rexes)) if credit[j_] >= kmin] if kmin > 1 else list(range(len(rexes)))
                        ambiguous = False
                        if mmax is not None and len(rexes) > mmax:
                            ranked = sorted(range(len(rexes)), key=lambda j_: -credit[j_])
                            top = set(ranked[:mmax])
                            # (which of several expressions with equal counts goes is not specified)
                            ambiguous = mmax < len(ranked) and credit[ranked[mmax - 1]] == credit[ranked[mmax]]
                            keep = [j_ for j_ in keep if j_ in top]
                        want_p = [rexes[j_] for j_ in keep]
                        if not ambiguous and prex != want_p:
                            cls_ = None
                            if opts.get('dialect', 'portable') in ('portable', 'grep') and \
                                    any(re.match(r'\d', ch) and not ('0' <= ch <= '9') for s_ in wc for ch in s_):
                                cls_ = 'c13-portable-digits'    # the returned text no longer matches what was counted
                            ctx.fail(pcase, finding=cls_, what='with min_strings_per_pattern=%r max_patterns=%r the result is %r; without them it is %r '
                                     'with %r supplied strings each, so %r should remain' % (kmin, mmax, prex, rexes, credit, want_p))
        if len(ctx.cov['samples']) < 3:
            ctx.sample({'case': case, 'rex': rexes, 'other_tagging': orex})
    M.compare_with_model(ctx, cases)
    M.check_oracle_hypotheses(ctx, cases)
    M.check_regex_model(ctx, cases)
    # ---- other ways of supplying the examples: a check function, pandas columns (categorical ones included)
    import pandas as pd
    import tdda.rexpy.rexpy as rx

    def judge(case, rexes, strings, opts):
        kept = list(R.cleaned(strings, opts).keys())
        if not kept:
            if rexes:
                ctx.fail(case, 'expressions %r returned although no example is kept' % (rexes,))
            return
        if len(rexes) > len(kept):
            ctx.fail(case, '%d expressions for %d distinct examples' % (len(rexes), len(kept)))
        for r_ in rexes:
            try:
                cr = re.compile(r_, R.RE_FLAGS)
            except re.error as e_:
                ctx.fail(case, 'expression %r does not compile: %s' % (r_, e_))
                continue
            if not (r_.startswith('^') and r_.endswith('$')):
                ctx.fail(case, 'expression %r is not anchored' % r_)
            fc = R.finding_class(''.join(kept), opts)
            originals = [s for s in strings if s is not None]
            if not any(cr.match(s) for s in originals):
                ctx.fail(case, 'expression %r matches none of the examples %r' % (r_, kept[:8]),
                         finding='c13-portable-digits' if fc else None)
    for it in range(40 if ctx.quick else 1500):
        strings = R.gen_examples(rng)
        opts = {k_: v_ for k_, v_ in R.gen_opts(rng).items() if k_ != "verbose"}
        if rng.random() < 0.5:
            opts['strip'] = True
            # (every string padded: an expression without the white-space allowance then matches nothing as given)
            strings = [rng.choice([' ', '  ', '\t']) + s + rng.choice(['', ' ', '   ']) for s in strings]

        def check(rexes, maxN=None, strings=strings):
            pats = [re.compile(r_, R.RE_FLAGS) for r_ in rexes]
            failures, freqs = [], [0] * len(rexes)
            for u in strings:
                for i_, cp in enumerate(pats):
                    if cp.fullmatch(u):
                        freqs[i_] += 1
                        break
                else:
                    if u not in failures:
                        failures.append(u)
            # (the documented protocol: an Examples object holding the distinct failing strings)
            return rx.Examples(failures), freqs
        case = {'form': 'check function', 'examples': repr(strings)[:1500], 'opts': opts}
        ctx.count(repr(case), True)
        ctx.bump('form.check-function')
        try:
            x = rx.Extractor(check, **opts)
            rexes = list(x.results.rex) if x.results else []
        except Exception as e_:
            ctx.fail(case, 'Extractor(check function) raised %s: %s' % (type(e_).__name__, str(e_)[:200]))
            continue
        judge(case, rexes, strings, opts)
    for it in range(40 if ctx.quick else 1500):
        strings = [s for s in R.gen_examples(rng)]
        cats = sorted(set(strings) | set(rng.sample(['unknown value', 'N/A', 'zz-999', 'never seen'], rng.choice([1, 2]))))
        kind = rng.choice(['filtered', 'all-null', 'plain'])
        if kind == 'all-null':
            ser = pd.Series(pd.Categorical([None] * 3, categories=cats))
            vals = []
        else:
            vals = strings if kind == 'plain' else strings[:max(1, len(strings) // 2)]
            ser = pd.Series(pd.Categorical(vals + [None], categories=cats))
        case = {'form': 'pdextract categorical', 'values': repr(vals)[:1200], 'categories': repr(cats)[:600], 'kind': kind}
        ctx.count(repr(case), True)
        ctx.bump('form.pdextract-categorical.' + kind)
        try:
            rexes = rx.pdextract(ser) or []
        except Exception as e_:
            ctx.fail(case, 'pdextract raised %s: %s' % (type(e_).__name__, str(e_)[:200]))
            continue
        judge(case, list(rexes), vals, {})
    # ---- the file route (rexpy_streams: one example per line of a text file, with or without a header line, the
    # expressions returned or written to a file): the examples are the lines as they stand, trailing blanks included
    import tempfile
    fdir = tempfile.mkdtemp(prefix='c13-files-', dir=lib.WORK)
    try:
        for it in range(30 if ctx.quick else 800):
            pad = rng.choice(['', '', '   ', '\t', ' \t '])
            strings = [s_ + pad for s_ in R.gen_examples(rng) if s_ and not any(ch in s_ for ch in '\n\r\x0b\x0c\x1c\x1d\x1e\x85\u2028\u2029')]
            if pad and rng.random() < 0.3 and strings:
                strings[0] = strings[0].rstrip() + 'x'          # not every line is padded
            if not strings:
                continue
            header = rng.random() < 0.4
            opts = {k_: v_ for k_, v_ in R.gen_opts(rng).items() if k_ in ('dialect', 'tag', 'extra_letters', 'variableLengthFrags')}
            inp = os.path.join(fdir, 'in%d.txt' % (it % 3))
            outp = os.path.join(fdir, 'out%d.txt' % (it % 3))
            with open(inp, 'w', encoding='utf-8', newline='') as f_:
                f_.write(''.join(l_ + '\n' for l_ in (['a header line'] if header else []) + strings))
            case = {'form': 'text file, one example per line', 'lines': repr(strings)[:1500], 'header_line_skipped': header, 'opts': opts}
            ctx.count(repr(case), True)
            ctx.bump('form.file%s' % ('.padded' if pad else ''))
            try:
                with contextlib.redirect_stdout(io.StringIO()):
                    if rng.random() < 0.5:
                        rexes = rx.rexpy_streams(inp, out_path=False, skip_header=header, **opts)
                    else:
                        rx.rexpy_streams(inp, out_path=outp, skip_header=header, **opts)
                        rexes = open(outp, encoding='utf-8').read().splitlines()
            except Exception as e_:
                ctx.fail(case, 'rexpy_streams raised %s: %s' % (type(e_).__name__, str(e_)[:200]))
                continue
            judge(case, list(rexes), strings, opts)
            if R.unmatched(list(rexes), strings) and not R.finding_class(''.join(strings), opts):
                ctx.fail(case, 'line %r of the file is matched by none of the expressions %r' % (R.unmatched(list(rexes), strings)[0], rexes))
    finally:
        shutil.rmtree(fdir, ignore_errors=True)
    ctx.cov['rule'] = ('as C03 (multisets x options x dialect x Size x seed) plus empty inputs; every run is repeated with '
                       'tagging flipped and both results are compared on the examples and on near-miss probe strings')
    ctx.assumptions += ['re.compile / re.match of CPython decide validity and matching']


def replay(ctx, data):
    import tdda.rexpy.rexpy as rx
    case = data.get('case', {})
    print(data.get('what'))
    try:
        arg = eval(case['examples'])
        size = rx.Size(**case['size']) if case.get('size') else None
        print('expressions now:', rx.extract(arg, size=size, seed=case.get('seed'), **case.get('opts', {})))
    except Exception as e:
        print('replay raised', type(e).__name__, e)
    return 0
