"""Runs the real rexpy Extractor under observation (re.match / group_map_function / random.sample are
wrapped from outside - no change to tdda) and builds the payload that lets the extracted Coq model
(Rexpy/Pipeline.v) replay the same run from the recorded oracle tables."""
import contextlib
import io
import random as _random
import re as _re

import tdda.rexpy.rexpy as rx


class _ReProxy(object):
    def __init__(self, rec):
        self._rec = rec

    def __getattr__(self, k):
        return getattr(_re, k)

    def match(self, pattern, string, flags=0):
        m = _re.match(pattern, string, flags)
        p = pattern.pattern if hasattr(pattern, 'pattern') else pattern
        self._rec.matches[(p, string)] = m is not None
        return m

    def fullmatch(self, pattern, string, flags=0):
        m = _re.fullmatch(pattern, string, flags)
        p = pattern.pattern if hasattr(pattern, 'pattern') else pattern
        self._rec.fullmatches[(p, string)] = m is not None
        return m


class _RandomProxy(object):
    def __init__(self, rec):
        self._rec = rec

    def __getattr__(self, k):
        return getattr(_random, k)

    def sample(self, population, k):
        population = list(population)
        idx = _random.sample(range(len(population)), k)   # same index choices as sampling the list itself
        self._rec.samples.append(idx)
        self._rec.events.append(2)
        return [population[i] for i in idx]

    def getstate(self):
        self._rec.events.append(0)
        return _random.getstate()

    def seed(self, n=None):
        self._rec.events.append(1)
        return _random.seed(n)

    def setstate(self, st):
        self._rec.events.append(3)
        return _random.setstate(st)


class Recorder(object):
    def __init__(self):
        self.matches = {}          # re.match(pattern, string)
        self.fullmatches = {}      # re.fullmatch(pattern, string): the check of the examples
        self.groups = {}
        self.samples = []
        self.events = []          # calls on the random module: 0 getstate, 1 seed, 2 sample, 3 setstate
        self.rex_lists = []


@contextlib.contextmanager
def observed():
    rec = Recorder()
    saved = (rx.re, rx.random, rx.group_map_function, rx.Extractor.find_non_matches)
    orig_gmf = saved[2]
    orig_fnm = saved[3]

    def gmf(m, n_groups):
        f = orig_gmf(m, n_groups)
        try:
            rec.groups[(m.re.pattern, m.string)] = [m.group(f(i + 1)) for i in range(n_groups)]
        except Exception:
            rec.groups[(m.re.pattern, m.string)] = None
        return f

    def fnm(self, rexes):
        rec.rex_lists.append(list(rexes))
        return orig_fnm(self, rexes)
    rx.re = _ReProxy(rec)
    rx.random = _RandomProxy(rec)
    rx.group_map_function = gmf
    rx.Extractor.find_non_matches = fnm
    try:
        yield rec
    finally:
        rx.re, rx.random, rx.group_map_function, rx.Extractor.find_non_matches = saved


SIZE_DEFAULTS = dict(do_all=100, do_all_exceptions=4000, max_sampled_attempts=2, max_punc_in_group=5,
                     max_strings_in_group=10)


def opts_payload(opts, size_spec):
    sz = dict(SIZE_DEFAULTS)
    if size_spec:
        sz.update({k: v for k, v in size_spec.items() if k in sz})
    mp = opts.get('max_patterns')
    return [bool(opts.get('tag')), opts.get('extra_letters') or '', bool(opts.get('full_escape')),
            bool(opts.get('remove_empties')), bool(opts.get('strip')), bool(opts.get('variableLengthFrags')),
            [] if mp is None else [mp], opts.get('min_strings_per_pattern', 1),
            opts.get('dialect', 'portable') in ('portable', 'grep'),
            [sz['do_all']], sz['do_all_exceptions'], sz['max_sampled_attempts'], sz['max_punc_in_group'],
            sz['max_strings_in_group']]


def items_of(arg):
    if isinstance(arg, dict):
        return [[[] if k is None else [k], v] for k, v in arg.items()]
    return [[[] if s is None else [s], 1] for s in arg]


def run_impl(arg, opts, size_spec=None, seed=None):
    """Returns (extractor or exception, recorder)."""
    size = rx.Size(**size_spec) if size_spec else None
    with observed() as rec:
        try:
            with contextlib.redirect_stdout(io.StringIO()):
                x = rx.Extractor(arg, size=size, seed=seed, **opts)
        except Exception as e:       # noqa
            return e, rec
    return x, rec


def model_payload(arg, opts, size_spec, rec):
    wanted = set()
    for l in rec.rex_lists:
        wanted.update(l)
    # the check of the examples against the expressions (re.fullmatch since fix aa11733; re.match before)
    checked = dict(rec.matches)
    checked.update(rec.fullmatches)
    mt = [[p, s, b] for (p, s), b in checked.items() if p in wanted]
    gt = [[p, s, g] for (p, s), g in rec.groups.items() if g is not None]
    return [opts_payload(opts, size_spec), items_of(arg), gt, mt, rec.samples]


def oracle_payload(opts, size_spec, x, rec):
    """the hypotheses of C03_batch_covers for the final working set of a real run"""
    gt = [[p, s, g] for (p, s), g in rec.groups.items() if g is not None]
    return [opts_payload(opts, size_spec), x.Cats.extra_letters or '', x.n_stripped > 0, gt, list(x.examples.strings)]


def check_oracle_hypotheses(ctx, cases):
    """cases as for compare_with_model: every recorded group split must satisfy the theorem's oracle hypotheses"""
    if not ctx.model_ok:
        return
    todo = [(case, oracle_payload(opts, size, x, rec)) for (case, arg, opts, size, x, rec) in cases if x.results is not None]
    outs = ctx.model.call_many(29, [p for _, p in todo])
    bad = 0
    for (case, _), o in zip(todo, outs):
        if o != 1:
            bad += 1
            ctx.mismatch('group-split-oracle-hypotheses', case, 'batch_oracle_okb = false', 'splits recorded from re.match')
    ctx.extra['oracle_hypotheses_checked'] = len(todo)
    ctx.extra['oracle_hypotheses_failed'] = bad
    # the text theorem (C03_batch_text_covers): its decidable hypothesis, evaluated on every run
    outs = ctx.model.call_many(31, [[p[0], p[1], p[2], p[3], p[4]] for _, p in todo])
    nr = 0
    for (case, p), o in zip(todo, outs):
        if o != 1:
            nr += 1
            ctx.mismatch('text-theorem-hypotheses', case, 'batch_renderable = false', 'extras %r' % (p[1],))
    ctx.extra['text_theorem_runs_checked'] = len(todo)
    ctx.extra['text_theorem_runs_with_extra_letters'] = sum(1 for _, p in todo if p[1])
    ctx.extra['text_theorem_hypotheses_failed'] = nr


def check_regex_model(ctx, cases, limit=4000):
    """the model's own reading of the expression TEXT (Rexpy/Regex.v: parser + matcher) against CPython re, on every
    (expression, string) pair that the real runs evaluated, plus every returned expression against every example"""
    if not ctx.model_ok:
        return
    import re
    n_in = n_out = n_pairs = bad = 0
    outside = []
    for full in (0, 1):
        by_pat = {}
        for (case, arg, opts, size, x, rec) in cases:
            for (p, s), b in (rec.fullmatches if full else rec.matches).items():
                by_pat.setdefault(p, {})[s] = bool(b)
            if x.results is not None:
                strings = [s for s in (arg.keys() if isinstance(arg, dict) else arg) if s is not None]
                for p in x.results.rex:
                    for s in strings[:12]:
                        try:
                            fn = re.fullmatch if full else re.match
                            by_pat.setdefault(p, {}).setdefault(s, bool(fn(p, s, re.UNICODE | re.DOTALL)))
                        except re.error:
                            pass
        pats = sorted(by_pat)[:limit]
        outs = ctx.model.call_many(30, [[p, list(by_pat[p]), bool(full)] for p in pats])
        for p, o in zip(pats, outs):
            if o == [2] or o == '!stack' or not isinstance(o, list):
                n_out += 1
                outside.append(p)
                continue
            n_in += 1
            for s, got in zip(by_pat[p], o):
                n_pairs += 1
                if got == 2 or bool(got) != by_pat[p][s]:
                    bad += 1
                    if bad <= 5:
                        ctx.mismatch('regex-text-model', {'expression': p, 'string': s, 'fullmatch': bool(full)}, got, by_pat[p][s])
    ctx.extra['regex_text_model'] = {'expressions_in_fragment': n_in, 'outside_fragment(extra letters / alternation)': n_out,
                                     'pairs_compared': n_pairs, 'disagreements': bad, 'outside_examples': outside[:8]}
    ctx.cov['evaluations'] += n_pairs


def decode_model(out):
    """(0 (none rex strings freqs passes samples_left last_failures)) | (err)"""
    from lib import dstrs
    if out == '!stack':
        return {'err': 'stack'}
    if len(out) == 1:
        return {'err': out[0]}
    r = out[1]
    return {'none': bool(r[0]), 'rex': dstrs(r[1]), 'strings': dstrs(r[2]), 'freqs': list(r[3]),
            'passes': r[4], 'samples_left': r[5], 'last_failures': dstrs(r[6])}


def impl_view(x):
    return {'none': x.results is None, 'rex': list(x.results.rex) if x.results else [],
            'strings': list(x.examples.strings), 'freqs': [int(f) for f in x.examples.freqs]}


# ---------------------------------------------------------------- shared case generation / runs

def gen_case(rng, R):
    """One extraction case: (form, arg, opts, size_spec, seed)."""
    ex = R.gen_examples(rng)
    opts = R.gen_opts(rng)
    size = R.gen_size(rng)
    if size:
        size['max_punc_in_group'] = rng.choice([0, 1, 2, 5])
        size['max_strings_in_group'] = rng.choice([1, 2, 10])
    seed = rng.choice([None, None, 0, 3, 12345])
    if rng.random() < 0.1:
        ex, size = R.gen_drift(rng)
        size['max_punc_in_group'] = 5
        size['max_strings_in_group'] = 10
        seed = rng.randrange(1000)
    form = rng.choice(['list', 'list', 'dict'])
    if form == 'dict':
        cnt = {}
        for s in ex:
            cnt[s] = cnt.get(s, 0) + 1
        if rng.random() < 0.3:
            cnt['zero-count'] = 0
        arg = cnt
    else:
        arg = list(ex)
        if rng.random() < 0.2:
            arg.insert(rng.randint(0, len(arg)), None)
    return form, arg, opts, size, seed


def compare_with_model(ctx, cases, layer='extractor'):
    """cases: list of (case_dict, arg, opts, size, x, rec). Runs the extracted model on the recorded
    oracle tables and reports disagreements. Returns the decoded model outputs."""
    if not ctx.model_ok or not cases:
        return []
    payloads = [model_payload(arg, opts, size, rec) for (_, arg, opts, size, x, rec) in cases]
    outs = ctx.model.call_many(16, payloads)
    decoded = []
    for (case, arg, opts, size, x, rec), o in zip(cases, outs):
        m = decode_model(o)
        decoded.append(m)
        iv = impl_view(x)
        ctx.cov['traces_validated_against_impl'] += 1
        if 'err' in m:
            ctx.mismatch(layer, case, m, iv)
        elif any(m[k] != iv[k] for k in iv):
            ctx.mismatch(layer, case, {k: m[k] for k in iv}, iv)
    return decoded


# ---------------------------------------------------------------- character-level sweeps

CAT_CODES = 'AaLḸBbMṂDhHXNnCḈ .*?'
EXTRAS = ['', '_', '.', '-', '_.', '_-', '.-', '_.-']


def sweep_chars(rng, full):
    if full:
        return [chr(c) for c in range(0x110000) if not (0xD800 <= c <= 0xDFFF)]
    import unicodedata   # noqa
    cps = set(range(0, 0x300))
    # every boundary of the interpreter's tables, +-1
    for pred in (str.isalnum, str.isdecimal, str.isdigit, str.isspace):
        prev = False
        for c in range(0x110000):
            if 0xD800 <= c <= 0xDFFF:
                continue
            cur = pred(chr(c))
            if cur != prev:
                cps.update((c - 1, c, c + 1))
                prev = cur
    # characters whose case mappings leave their script: non-ASCII with an ASCII or multi-character lower / upper / folded form
    for c in range(0x80, 0x30000):
        ch = chr(c)
        for f in (ch.lower(), ch.upper(), ch.casefold()):
            if f != ch and (len(f) > 1 or ord(f) < 0x80):
                cps.add(c)
    cps.update(rng.randrange(0x110000) for _ in range(3000))
    return [chr(c) for c in sorted(cps) if 0 <= c < 0x110000 and not (0xD800 <= c <= 0xDFFF)]


_SWEEP_CACHE = {}


def py_cat_sem(extras, out, code, ch):
    """the model's cat_sem, written again in Python (used for the exhaustive sweep: the extracted model is compared with
    this on the boundary sample, and this with CPython re on every code point)"""
    c = ord(ch)
    up, lo, d09 = 65 <= c <= 90, 97 <= c <= 122, 48 <= c <= 57
    word = ch.isalnum() or ch == '_'
    exc = '' if '_' in extras else '_'
    inc = extras.replace('_', '')
    inx = ch in extras
    return {
        'A': up, 'a': lo, 'L': up or lo, 'Ḹ': word and not d09 and ch != '_',
        'B': up or inx, 'b': lo or inx, 'M': up or lo or inx,
        'Ṃ': (word and not d09 and ch != '_') if not extras else ((word and not d09 and ch not in exc) or ch in inc),
        'D': d09 if out else ch.isdecimal(),
        'h': d09 or 97 <= c <= 102, 'H': d09 or 65 <= c <= 70, 'X': d09 or 97 <= c <= 102 or 65 <= c <= 70,
        'N': up or d09 or inx, 'n': lo or d09 or inx, 'C': up or lo or d09 or inx,
        'Ḉ': (word and ch not in exc) or ch in inc,
        ' ': ch.isspace(), '.': 33 <= c <= 126 and not (up or lo or d09) and not inx,
        '*': not (33 <= c <= 126) and not ch.isspace(), '?': True}[code]


def exhaustive_formula_sweep(ctx):
    """every code point: the Python restatement of cat_sem vs CPython re, for every category, extras set and dialect"""
    chars = [chr(c) for c in range(0x110000) if not (0xD800 <= c <= 0xDFFF)]
    n = 0
    for extras in EXTRAS:
        for dialect, out in ((None, False), ('portable', True)):
            cats = rx.Categories(extras or None, dialect=dialect)
            for code in CAT_CODES:
                try:
                    cat = cats[code]
                except KeyError:
                    continue
                if out and code != 'D':
                    continue
                single = _re.compile('^%s$' % cat.re_string, rx.RE_FLAGS)
                bad = [hex(ord(ch)) for ch in chars if (single.match(ch) is not None) != bool(py_cat_sem(extras, out, code, ch))]
                n += len(chars)
                if bad:
                    ctx.mismatch('category-semantics-exhaustive', {'extras': extras, 'dialect': dialect, 'code': code,
                                                                   'first_bad_code_points': bad[:8]}, 'cat_sem formula', 're.match')
    ctx.cov['evaluations'] += n
    ctx.extra['exhaustive_code_point_sweep'] = n


def char_sweeps(ctx, full=False):
    """Model category semantics / regex text / coarse and fine classification vs the real Categories and re."""
    import lib
    if not ctx.model_ok:
        return
    if full:
        exhaustive_formula_sweep(ctx)
        full = False          # the extracted model itself is swept on the boundary sample (every table boundary +-1)
    chars = _SWEEP_CACHE.get(full)
    if chars is None:
        chars = _SWEEP_CACHE[full] = sweep_chars(ctx.rng, full)
    text = ''.join(chars)
    n = 0
    for extras in EXTRAS:
        for dialect, out in ((None, False), ('portable', True), ('grep', True)):
            cats = rx.Categories(extras or None, dialect=dialect)
            mre = ctx.model.call(19, extras)
            mtext = {chr(r[0]): (lib.dopt(r[1], lib.dstr), lib.dopt(r[2], lib.dstr)) for r in mre}
            for code in CAT_CODES:
                try:
                    cat = cats[code]
                except KeyError:
                    cat = None
                mt = mtext[code][1 if out else 0]
                it = cat.re_string if cat is not None else None
                if mt != it:
                    ctx.mismatch('category-regex-text', {'extras': extras, 'dialect': dialect, 'code': code}, mt, it)
                    continue
                if cat is None:
                    continue
                single = _re.compile('^%s$' % cat.re_string, rx.RE_FLAGS)
                want = [single.match(ch) is not None for ch in chars]
                got = [bool(b) for b in ctx.model.call(17, [extras, out, ord(code), text])]
                n += len(chars)
                if got != [bool(py_cat_sem(extras, out, code, ch)) for ch in chars]:
                    ctx.mismatch('category-semantics-formula', {'extras': extras, 'dialect': dialect, 'code': code}, 'cat_sem',
                                 'python restatement of cat_sem')
                if got != want:
                    bad = [hex(ord(ch)) for ch, g, w in zip(chars, got, want) if g != w][:8]
                    ctx.mismatch('category-semantics', {'extras': extras, 'dialect': dialect, 'code': code,
                                                        'first_bad_code_points': bad}, 'cat_sem', 're.match')
        x = rx.Extractor(['a_.-'], extra_letters=extras or None)
        coarse, fine = ctx.model.call(18, [extras, text])
        want_c = [ord(x.coarse_classify_char(ch)) for ch in chars]
        if list(coarse) != want_c:
            bad = [hex(ord(ch)) for ch, g, w in zip(chars, coarse, want_c) if g != w][:8]
            ctx.mismatch('coarse-classification', {'extras': extras, 'first_bad_code_points': bad}, 'coarse_char',
                         'coarse_classify_char')
        alnums = [(i, ch) for i, ch in enumerate(chars) if want_c[i] == ord(rx.UNIC)]
        want_f = [ord(x.fine_class(ch)) for _, ch in alnums]
        got_f = [fine[i] for i, _ in alnums]
        if got_f != want_f:
            badf = [ch for (_, ch), g, w in zip(alnums, got_f, want_f) if g != w]
            ctx.mismatch('fine-classification', {'extras': extras, 'first_bad_code_points': [hex(ord(c)) for c in badf[:8]]},
                         'fine_class', 'Extractor.fine_class')
            search_around_chars(ctx, badf[:6], extras)
        if list(coarse) != want_c:
            search_around_chars(ctx, [ch for ch, g, w in zip(chars, coarse, want_c) if g != w][:6], extras)
        n += 2 * len(chars)
    ctx.cov['evaluations'] += n
    ctx.extra['char_sweep'] = {'code_points': len(chars), 'full': full, 'comparisons': n}


def search_around_chars(ctx, bad_chars, extras):
    """The correspondence on character classification broke at these code points: search for examples around them that the
    returned expressions no longer cover (a concrete failing input for the coverage property)."""
    for c in bad_chars:
        fams = [[c + w for w in ('zmir', 'negol', 'skenderun')], ['ab' + c, 'cd' + c, 'efg' + c], [c, c + c, c + c + c],
                ['A' + c + '1', 'B' + c + '22', 'C' + c + '333'], [c + 'A', c + 'B'], ['x' + c + 'y', 'p' + c + 'q'],
                [c + '-1', c + '-22'], [c.lower() + 'a' if c.lower() != c else c + 'b', c + 'c']]
        for ex in fams:
            for dialect in (None, 'portable'):
                for vl in (False, True):
                    try:
                        kw = dict(extra_letters=extras or None, variableLengthFrags=vl)
                        if dialect:
                            kw['dialect'] = dialect
                        res = rx.extract(list(ex), **kw)
                    except Exception as e:
                        ctx.fail({'examples': ex, 'extra_letters': extras, 'dialect': dialect, 'variableLengthFrags': vl},
                                 'extract raised %s: %s' % (type(e).__name__, str(e)[:150]))
                        continue
                    comp = [_re.compile(r, rx.RE_FLAGS) for r in res]
                    missed = [e_ for e_ in ex if not any(r.fullmatch(e_) for r in comp)]
                    ctx.cov['evaluations'] += 1
                    if missed:
                        ctx.fail({'examples': ex, 'extra_letters': extras, 'dialect': dialect, 'variableLengthFrags': vl},
                                 'example %r is matched by none of the returned expressions %r' % (missed[0], res))
                        return


def escape_sweep(ctx, n=400):
    """escape / escaped_bracket of the model vs rexpy's, on random and exhaustive-small character sets."""
    import itertools
    import lib
    if not ctx.model_ok:
        return
    rng = ctx.rng
    pool = list('ab1^-]\\[.*+?(){}|$ _"\'/:;<=>@`!%,&~#') + ['\t', '\n', 'é', '٣']
    cases = [''.join(c) for k in (0, 1, 2, 3) for c in itertools.permutations('^-]\\a', k)]
    cases += [''.join(rng.choice(pool) for _ in range(rng.randint(0, 7))) for _ in range(n)]
    payloads = []
    for s in cases:
        for full in (False, True):
            for inner in (False, True):
                payloads.append([full, inner, s])
    outs = ctx.model.call_many(20, payloads)
    for (full, inner, s), o in zip(payloads, outs):
        got = (lib.dstr(o[0]), lib.dstr(o[1]))
        want = (rx.escape(s, full=full), rx.escaped_bracket(s, inner=inner))
        if got != want:
            ctx.mismatch('escape', {'s': s, 'full': full, 'inner': inner}, got, want)
    ctx.cov['evaluations'] += len(payloads)
