"""Runs the real rexpy Extractor under observation (re.match / group_map_function / random.sample are
wrapped from outside - no change to tdda) and builds the payload that lets the extracted Coq model
(Rexpy/Pipeline.v) replay the same run from the recorded oracle tables."""
import contextlib
import io
import random as _random
import re as _re

import tdda.rexpy.rexpy as rx


class _ReProxy(object):
    def __init__(self, rec):
        self._rec = rec

    def __getattr__(self, k):
        return getattr(_re, k)

    def match(self, pattern, string, flags=0):
        m = _re.match(pattern, string, flags)
        p = pattern.pattern if hasattr(pattern, 'pattern') else pattern
        self._rec.matches[(p, string)] = m is not None
        return m


class _RandomProxy(object):
    def __init__(self, rec):
        self._rec = rec

    def __getattr__(self, k):
        return getattr(_random, k)

    def sample(self, population, k):
        population = list(population)
        idx = _random.sample(range(len(population)), k)   # same index choices as sampling the list itself
        self._rec.samples.append(idx)
        return [population[i] for i in idx]


class Recorder(object):
    def __init__(self):
        self.matches = {}
        self.groups = {}
        self.samples = []
        self.rex_lists = []


@contextlib.contextmanager
def observed():
    rec = Recorder()
    saved = (rx.re, rx.random, rx.group_map_function, rx.Extractor.find_non_matches)
    orig_gmf = saved[2]
    orig_fnm = saved[3]

    def gmf(m, n_groups):
        f = orig_gmf(m, n_groups)
        try:
            rec.groups[(m.re.pattern, m.string)] = [m.group(f(i + 1)) for i in range(n_groups)]
        except Exception:
            rec.groups[(m.re.pattern, m.string)] = None
        return f

    def fnm(self, rexes):
        rec.rex_lists.append(list(rexes))
        return orig_fnm(self, rexes)
    rx.re = _ReProxy(rec)
    rx.random = _RandomProxy(rec)
    rx.group_map_function = gmf
    rx.Extractor.find_non_matches = fnm
    try:
        yield rec
    finally:
        rx.re, rx.random, rx.group_map_function, rx.Extractor.find_non_matches = saved


SIZE_DEFAULTS = dict(do_all=100, do_all_exceptions=4000, max_sampled_attempts=2, max_punc_in_group=5,
                     max_strings_in_group=10)


def opts_payload(opts, size_spec):
    sz = dict(SIZE_DEFAULTS)
    if size_spec:
        sz.update({k: v for k, v in size_spec.items() if k in sz})
    mp = opts.get('max_patterns')
    return [bool(opts.get('tag')), opts.get('extra_letters') or '', bool(opts.get('full_escape')),
            bool(opts.get('remove_empties')), bool(opts.get('strip')), bool(opts.get('variableLengthFrags')),
            [] if mp is None else [mp], opts.get('min_strings_per_pattern', 1),
            opts.get('dialect', 'portable') in ('portable', 'grep'),
            [sz['do_all']], sz['do_all_exceptions'], sz['max_sampled_attempts'], sz['max_punc_in_group'],
            sz['max_strings_in_group']]


def items_of(arg):
    if isinstance(arg, dict):
        return [[[] if k is None else [k], v] for k, v in arg.items()]
    return [[[] if s is None else [s], 1] for s in arg]


def run_impl(arg, opts, size_spec=None, seed=None):
    """Returns (extractor or exception, recorder)."""
    size = rx.Size(**size_spec) if size_spec else None
    with observed() as rec:
        try:
            with contextlib.redirect_stdout(io.StringIO()):
                x = rx.Extractor(arg, size=size, seed=seed, **opts)
        except Exception as e:       # noqa
            return e, rec
    return x, rec


def model_payload(arg, opts, size_spec, rec):
    wanted = set()
    for l in rec.rex_lists:
        wanted.update(l)
    mt = [[p, s, b] for (p, s), b in rec.matches.items() if p in wanted]
    gt = [[p, s, g] for (p, s), g in rec.groups.items() if g is not None]
    return [opts_payload(opts, size_spec), items_of(arg), gt, mt, rec.samples]


def decode_model(out):
    """(0 (none rex strings freqs passes samples_left last_failures)) | (err)"""
    from lib import dstrs
    if out == '!stack':
        return {'err': 'stack'}
    if len(out) == 1:
        return {'err': out[0]}
    r = out[1]
    return {'none': bool(r[0]), 'rex': dstrs(r[1]), 'strings': dstrs(r[2]), 'freqs': list(r[3]),
            'passes': r[4], 'samples_left': r[5], 'last_failures': dstrs(r[6])}


def impl_view(x):
    return {'none': x.results is None, 'rex': list(x.results.rex) if x.results else [],
            'strings': list(x.examples.strings), 'freqs': [int(f) for f in x.examples.freqs]}
