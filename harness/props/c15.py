"""C15 - failed text/binary assertions leave faithful artefacts; passing ones leave none.
Runs the real assertions with a fresh tmp_dir and inspects messages and files; compares the set of
files, the named pairs and the post-processed contents with RefTest/Artefacts.v + CheckStrings.v."""
import os
import re
import shutil

import lib
from props import textcmp as T
from props.c04 import make_reftest, join_text, classify_diverge, FINDING_RECURSION

ART = {0: 'actual-raw-', 1: 'expected-raw-', 2: 'actual-', 3: 'expected-'}


def snapshot(d):
    out = {}
    for root, dirs, files in os.walk(d):
        for f in files:
            p = os.path.join(root, f)
            st = os.stat(p)
            out[os.path.relpath(p, d)] = (st.st_size, st.st_mtime_ns, open(p, 'rb').read())
    return out


def parse_pairs(msg):
    """[(qualifier, fileA, fileB)] for every 'Compare ... with:\n    diff A B' in the message."""
    out = []
    for m in re.finditer(r'Compare (raw |post-processed )?with:\n\s+\S+ (\S+) (\S+)', msg):
        out.append(((m.group(1) or '').strip(), m.group(2), m.group(3)))
    return out


def body_of(path):
    s = open(path, encoding='utf-8', newline='').read()
    if s.startswith('***\n') and '***\n\n' in s:
        s = s.split('***\n\n', 1)[1]
    return s


def run(ctx):
    rng = ctx.rng
    from tdda.referencetest.referencetest import ReferenceTest
    ReferenceTest.regenerate.clear()
    base = T.workdir()
    tmp = os.path.join(base, 'tmpdir')
    data = os.path.join(base, 'data')
    os.makedirs(tmp)
    os.makedirs(data)
    cwd0 = os.getcwd()
    os.chdir(data)
    try:
        rt, Failed = make_reftest(tmp)
        n = 700 if ctx.quick else 12000
        cases = []
        for i in range(n):
            A, E = T.gen_pair(rng)
            if i % 8 == 0:
                A = E[:]
            elif i % 13 == 0:
                A = []          # an empty actual result against a non-empty reference
            o = T.gen_opts(rng)
            sa, se = join_text(rng, A), join_text(rng, E)
            mode = rng.choice([1, 1, 2])
            cases.append((mode, sa, se, o))
        payloads = []
        for mode, sa, se, o in cases:
            pp = T.PREPROCESS[o.get('preprocess')]
            if pp:
                payloads.append(T.model_payload(0, o, pp(sa.splitlines()), pp(se.splitlines()), mode != 1))
            else:
                payloads.append(T.model_payload(1 if mode == 1 else 2, o, sa, se, mode != 1))
        mouts = ctx.model.call_many(7, payloads) if ctx.model_ok else [None] * len(cases)
        for idx, ((mode, sa, se, o), mo) in enumerate(zip(cases, mouts)):
            refp = os.path.join(data, 'ref.txt')
            actp = os.path.join(data, 'out.txt')
            with open(refp, 'w', encoding='utf-8', newline='') as f:
                f.write(se)
            if mode == 2:
                with open(actp, 'w', encoding='utf-8', newline='') as f:
                    f.write(sa)
            before = snapshot(data)
            kw = dict(lstrip=o['lstrip'], rstrip=o['rstrip'], ignore_substrings=o['ignore_substrings'] or None,
                      ignore_patterns=o['ignore_patterns'] or None, remove_lines=o['remove_lines'] or None,
                      preprocess=T.PREPROCESS[o.get('preprocess')],
                      max_permutation_cases=o['max_permutation_cases'])
            msg = None
            try:
                if mode == 1:
                    rt.assertStringCorrect(sa, refp, **kw)
                else:
                    rt.assertTextFileCorrect(actp, refp, **kw)
                got = 'pass'
            except Failed as e:
                got = 'fail'
                msg = str(e)
            except RecursionError:
                got = 'diverge'
            after = snapshot(data)
            files = sorted(os.listdir(tmp))
            case = {'mode': mode, 'actual': sa, 'reference': se, 'opts': o}
            ctx.count(('T', mode, sa, se, repr(sorted(o.items(), key=str))), sa != se)
            ctx.bump('text.mode%d.%s' % (mode, got))
            problems = []
            raw_finding = []
            if before != after:
                problems.append('files outside the temporary directory changed: %r' %
                                sorted(set(before) ^ set(after) or [k for k in before if before[k] != after.get(k)]))
            la, le = sa.splitlines(), se.splitlines()
            pp = T.PREPROCESS[o.get('preprocess')]
            if pp:
                la, le = pp(la), pp(le)
            if got == 'pass':
                if files:
                    problems.append('passing assertion wrote %r' % files)
            elif got == 'fail':
                pairs = parse_pairs(msg)
                if not pairs:
                    problems.append('failure message names no comparison command: %r' % msg[:300])
                for q, fa, fb in pairs:
                    for p in (fa, fb):
                        if not os.path.exists(p):
                            problems.append('message names %s which does not exist' % p)
                        elif os.path.dirname(p) != tmp and p not in (refp, actp):
                            problems.append('message names unexpected file %s' % p)
                raw = [p for p in pairs if p[0] in ('', 'raw')]
                if pairs and not raw:
                    problems.append('failure message names no comparison of the actual content with the reference: %r' % msg[:300])
                if raw:
                    fa = raw[0][1]
                    if mode == 1:
                        if os.path.dirname(fa) != tmp:
                            problems.append('string actual not written to the temporary directory: %s' % fa)
                        elif os.path.exists(fa):
                            content = open(fa, encoding='utf-8', newline='').read()
                            raw_lines = sa.splitlines()
                            if raw_lines and raw_lines[-1] == '':
                                raw_lines = raw_lines[:-1]
                            want_lines = sa.splitlines()
                            if pp:
                                want_lines = pp(want_lines)
                            if want_lines and want_lines[-1] == '':
                                want_lines = want_lines[:-1]
                            want_lines = [l for l in want_lines
                                          if not any(r in l for r in (o['remove_lines'] or []))]
                            got_lines = content.split('\n')
                            if got_lines != raw_lines and not (content == '' and raw_lines == []):
                                # the property: the file holds the actual content (up to line ends).  The code writes
                                # the lines handed to the comparison - after preprocess and remove_lines: the
                                # recorded finding c15-raw-actual-after-removal; anything else is a new violation
                                if got_lines == want_lines or (content == '' and want_lines == []):
                                    raw_finding.append('actual-raw file holds the processed lines %r, the actual string has %r'
                                                       % (got_lines, raw_lines))
                                else:
                                    problems.append('actual-raw file does not hold the actual lines: %r vs %r'
                                                    % (got_lines, raw_lines))
                    elif fa != actp:
                        problems.append('file actual: message names %s instead of %s' % (fa, actp))
                exclusions = bool(o['ignore_substrings'] or o['ignore_patterns'] or o['remove_lines']
                                  or o.get('preprocess'))
                post = [p for p in pairs if p[0] == 'post-processed']
                try:
                    want, Uq = T.spec_verdict(la, le, o)
                except (T.Diverges, RecursionError):
                    want, Uq = 'diverge', None
                if exclusions and not post and want != 'diverge' and got == 'fail':
                    # exclusions were in force (a preprocess function was given, a line of either side was removed, or a
                    # difference was excused): the property requires the post-processed pair
                    la3 = la[:-1] if la and la[-1] == '' else la
                    le3 = le[:-1] if le and le[-1] == '' else le
                    rem3 = o['remove_lines'] or []
                    removed_any = any(r in l for l in la3 + le3 for r in rem3)
                    ka3 = [l for l in la3 if not any(r in l for r in rem3)]
                    ke3 = [l for l in le3 if not any(r in l for r in rem3)]
                    same_n = len(ka3) == len(ke3)
                    excused_any = same_n and Uq is not None and sum(
                        1 for a, e in zip(ka3, ke3)
                        if T._norm(a, o['lstrip'], o['rstrip']) != T._norm(e, o['lstrip'], o['rstrip'])) > len(Uq)
                    if o.get('preprocess') or removed_any or excused_any:
                        # (with different numbers of kept lines and nothing removed it cannot be said here whether a
                        # difference was excused: that case belongs to the recorded finding on different line counts)
                        problems.append('exclusions were in force (%s) and the assertion failed, but no post-processed '
                                        'pair is named' % ('preprocess' if o.get('preprocess') else
                                                           'lines removed' if removed_any else 'a difference excused'))
                if post and os.path.exists(post[0][1]) and os.path.exists(post[0][2]):
                    ba = body_of(post[0][1])
                    be = body_of(post[0][2])
                    la2 = la[:-1] if la and la[-1] == '' else la
                    le2 = le[:-1] if le and le[-1] == '' else le
                    rem = o['remove_lines'] or []
                    ka = [l for l in la2 if not any(r in l for r in rem)]
                    ke = [l for l in le2 if not any(r in l for r in rem)]
                    if Uq is not None and len(ka) == len(ke):
                        # same number of compared lines: the two files must differ exactly on the unexcused pairs
                        xa, xe = ba.split('\n'), be.split('\n')
                        if xa and xa[-1] == '' and xe and xe[-1] == '':
                            xa, xe = xa[:-1], xe[:-1]
                        diffs = [(a, e) for a, e in zip(xa, xe) if a != e]
                        wantd = [(T._norm(a, o['lstrip'], o['rstrip']), T._norm(e, o['lstrip'], o['rstrip']))
                                 for _, a, e in Uq]
                        if len(xa) != len(xe) or diffs != wantd:
                            problems.append('post-processed files differ on %r, unexcused differences are %r'
                                            % (diffs, wantd))
                    if mo is not None and mo != '!stack':
                        recon = lib.dopt(mo[4], lambda p: (lib.dstrs(p[0]), lib.dstrs(p[1])))
                        if recon is not None:
                            ok = lambda body, lines: body in ('\n'.join(lines), '\n'.join(lines) + '\n')
                            if not (ok(ba, recon[0]) and ok(be, recon[1])):
                                ctx.mismatch('post-processed file contents', case,
                                             {'actual': recon[0], 'expected': recon[1]}, {'actual': ba, 'expected': be})
            if mo is not None and mo != '!stack':
                ctx.cov['traces_validated_against_impl'] += 1
                mv = {0: 'pass', 1: 'fail', 2: 'diverge'}[mo[0]]
                common = 'ref.txt' if mode == 1 else 'out.txt'
                mfiles = sorted(ART[k] + common for k in mo[1])
                if mv != got or (got != 'diverge' and mfiles != files):
                    ctx.mismatch('artefact set', case, {'verdict': mv, 'files': mfiles},
                                 {'verdict': got, 'files': files})
                if got == 'fail':
                    pairs = parse_pairs(msg)
                    named = (any(p[0] in ('', 'raw') for p in pairs), any(p[0] == 'post-processed' for p in pairs))
                    if named != (bool(mo[2]), bool(mo[3])):
                        ctx.mismatch('named pairs', case, (bool(mo[2]), bool(mo[3])), named)
            if got == 'diverge' and files:
                problems.append('RecursionError path wrote %r' % files)   # the RecursionError itself is C04's finding
            for pr in problems:
                ctx.fail(case, pr)
            for pr in raw_finding:
                ctx.fail(case, pr, finding='c15-raw-actual-after-removal')
            for f in os.listdir(tmp):
                os.remove(os.path.join(tmp, f))
            for p in (refp, actp):
                if os.path.exists(p):
                    os.remove(p)
            if idx == 3:
                ctx.sample({'kind': 'text', 'mode': mode, 'actual': sa, 'reference': se, 'opts': o,
                            'outcome': got, 'files_written': files})
        # ------------------------------------------------ the reference does not exist yet: the message tells how to
        # initialise it from the actual content, and the file it names holds exactly the string that was passed
        for it in range(40 if ctx.quick else 800):
            A, _E = T.gen_pair(rng)
            sa = join_text(rng, A) + rng.choice(['', '\n', '\n\n', '\r\n', '\x0cend'])
            refp = os.path.join(data, 'newref%d.txt' % (it % 3))
            if os.path.exists(refp):
                os.remove(refp)
            case = {'kind': 'missing-reference', 'actual': sa}
            ctx.count(('NR', sa), True)
            ctx.bump('missing_reference')
            try:
                rt.assertStringCorrect(sa, refp)
                ctx.fail(case, 'an assertion against a reference that does not exist passed')
                continue
            except Failed as ex:
                msg = str(ex)
            m_ = re.search(r'Initialize (?:\S+ )?from actual content with:\n\s+\S+ (\S+) (\S+)', msg)
            if not m_:
                ctx.fail(case, 'the message does not say how to initialise the missing reference: %r' % msg[:300])
            else:
                fa, fb = m_.group(1), m_.group(2)
                if fb != refp:
                    ctx.fail(case, 'the message names %s as the reference to create, not %s' % (fb, refp))
                if not os.path.exists(fa) or os.path.dirname(fa) != tmp:
                    ctx.fail(case, 'the file to copy from (%s) is missing or not in the temporary directory' % fa)
                else:
                    got_ = open(fa, encoding='utf-8', newline='').read()
                    if got_ != sa:
                        ctx.fail(case, 'the file named as actual content holds %r, the actual string is %r' % (got_, sa))
            if os.path.exists(refp):
                ctx.fail(case, 'a normal-mode assertion created the missing reference file')
                os.remove(refp)
            for f in os.listdir(tmp):
                os.remove(os.path.join(tmp, f))
        # ------------------------------------------------ failure after failure into ONE temporary directory that is never
        # cleared (as in a real test session): the files named by each message hold the content of THAT failure, also when
        # an earlier failure left files of the same names and the same sizes
        for it in range(30 if ctx.quick else 500):
            refp = os.path.join(data, 'again.txt')
            nlines = rng.randint(2, 5)
            ref_lines = ['line %d value %03d' % (j, rng.randrange(1000)) for j in range(nlines)]
            with open(refp, 'w', encoding='utf-8', newline='') as f_:
                f_.write('\n'.join(ref_lines) + '\n')
            use_ignore = rng.random() < 0.5
            kw_ = {'ignore_substrings': ['line 0']} if use_ignore else {}
            for step in range(rng.randint(2, 4)):
                act_lines = list(ref_lines)
                j = rng.randrange(nlines)
                # same length as the reference line (and as the earlier failures): only some digits change
                act_lines[j] = 'line %d value %03d' % (j, (int(ref_lines[j][-3:]) + 1 + rng.randrange(998)) % 1000)
                if use_ignore:
                    act_lines[0] = 'line 0 value %03d' % rng.randrange(1000)
                sa = '\n'.join(act_lines) + '\n'
                case = {'kind': 'successive failures into one temporary directory', 'step': step, 'actual': sa,
                        'reference': '\n'.join(ref_lines) + '\n', 'ignore_substrings': kw_.get('ignore_substrings')}
                ctx.count(('SF', it, step, sa), True)
                ctx.bump('successive_failures')
                try:
                    rt.assertStringCorrect(sa, refp, **kw_)
                    if act_lines[1:] != ref_lines[1:] or (not use_ignore and act_lines != ref_lines):
                        ctx.fail(case, 'a differing string passed')
                    continue
                except Failed as ex:
                    msg = str(ex)
                for q, fa, fb in parse_pairs(msg):
                    if not (os.path.exists(fa) and os.path.exists(fb)):
                        ctx.fail(case, 'a named file does not exist: %s %s' % (fa, fb))
                        continue
                    if q in ('', 'raw') and fa != refp:
                        got_ = open(fa, encoding='utf-8', newline='').read()
                        if got_.split('\n') != act_lines:      # (content up to line ends, as in the first layer)
                            ctx.fail(case, 'the file named as actual (%s) holds %r, the actual string of this failure is %r'
                                     % (os.path.basename(fa), got_, sa))
                    if q == 'post-processed':
                        xa, xe = body_of(fa).split('\n'), body_of(fb).split('\n')
                        diffs = [(a, e) for a, e in zip(xa, xe) if a != e]
                        wantd = [(a, e) for k_, (a, e) in enumerate(zip(act_lines, ref_lines))
                                 if a != e and not (use_ignore and k_ == 0)]
                        if diffs != wantd:
                            ctx.fail(case, 'the post-processed pair differs on %r, the unexcused differences of this failure '
                                     'are %r' % (diffs, wantd))
            for f in os.listdir(tmp):
                os.remove(os.path.join(tmp, f))
            os.remove(refp)
        # ------------------------------------------------ relative paths, in a working directory the process moved to after
        # tdda was imported (as a test that changes directory does): the files the message names are the files that exist
        for it in range(12 if ctx.quick else 200):
            sub = os.path.join(base, 'moved%d' % it)
            os.makedirs(os.path.join(sub, 'reltmp'))
            here = os.getcwd()
            os.chdir(sub)
            try:
                rt3, Failed3 = make_reftest('reltmp')
                kind_ = rng.choice(['string', 'textfile', 'binary'])
                with open('relref.txt', 'wb') as f_:
                    f_.write(b'alpha\nbeta\n')
                with open('relact.txt', 'wb') as f_:
                    f_.write(b'alpha\nBETA\n')
                case = {'kind': 'relative paths after a change of directory', 'assertion': kind_}
                ctx.count(('REL', it, kind_), True)
                ctx.bump('relative_paths.' + kind_)
                try:
                    if kind_ == 'string':
                        rt3.assertStringCorrect('alpha\nBETA\n', 'relref.txt')
                    elif kind_ == 'textfile':
                        rt3.assertTextFileCorrect('relact.txt', 'relref.txt')
                    else:
                        rt3.assertBinaryFileCorrect('relact.txt', 'relref.txt')
                    ctx.fail(case, 'a differing %s assertion passed' % kind_)
                except Failed3 as ex:
                    msg = str(ex)
                    pairs = parse_pairs(msg)
                    if not pairs:
                        ctx.fail(case, 'failure message names no comparison command: %r' % msg[:300])
                    for q, fa, fb in pairs:
                        for p_ in (fa, fb):
                            if not os.path.exists(p_):
                                ctx.fail(case, 'the message names %s, which does not exist (working directory %s)' % (p_, sub))
                            elif os.path.dirname(os.path.realpath(p_)) not in (os.path.realpath(sub), os.path.realpath(os.path.join(sub, 'reltmp'))):
                                ctx.fail(case, 'the message names %s, outside the working directory and its temporary directory' % p_)
                written = sorted(os.listdir('.'))
                if written != ['relact.txt', 'relref.txt', 'reltmp']:
                    ctx.fail(case, 'files written outside the temporary directory: %r' % written)
            finally:
                os.chdir(here)
                shutil.rmtree(sub, ignore_errors=True)
        # ------------------------------------------------ the actual file itself lives in the temporary directory
        # (a program under test that writes its output there), under names like the ones the library uses
        nt = 120 if ctx.quick else 2500
        for it in range(nt):
            A, E = T.gen_pair(rng)
            o = T.gen_opts(rng)
            sa, se = join_text(rng, A), join_text(rng, E)
            refname = rng.choice(['ref.txt', 'expected.txt', 'r'])
            aname = rng.choice(['out.txt', 'actual-' + refname, 'actual-raw-' + refname, 'expected-' + refname, refname])
            refp = os.path.join(data, refname)
            actp = os.path.join(tmp, aname)
            with open(refp, 'w', encoding='utf-8', newline='') as f:
                f.write(se)
            with open(actp, 'w', encoding='utf-8', newline='') as f:
                f.write(sa)
            kw = dict(lstrip=o['lstrip'], rstrip=o['rstrip'], ignore_substrings=o['ignore_substrings'] or None,
                      ignore_patterns=o['ignore_patterns'] or None, remove_lines=o['remove_lines'] or None,
                      preprocess=T.PREPROCESS[o.get('preprocess')],
                      max_permutation_cases=o['max_permutation_cases'])
            case = {'kind': 'actual-in-tmp', 'actual_name': aname, 'reference_name': refname,
                    'actual': sa, 'reference': se, 'opts': o}
            ctx.count(('TT', repr(case)), sa != se)
            try:
                rt.assertTextFileCorrect(actp, refp, **kw)
                got, msg = 'pass', ''
            except Failed as ex:
                got, msg = 'fail', str(ex)
            except RecursionError:
                got, msg = 'diverge', ''
            ctx.bump('actual_in_tmp.' + got)
            written = sorted(set(os.listdir(tmp)) - {aname})
            if got == 'pass' and written:
                ctx.fail(case, 'passing assertion wrote %r' % written)
            if got == 'fail':
                pairs = parse_pairs(msg)
                raw = [p_ for p_ in pairs if p_[0] in ('', 'raw')]
                if not raw:
                    ctx.fail(case, 'failure message names no comparison of the actual content with the reference')
                elif raw[0][1] != actp or raw[0][2] != refp:
                    ctx.fail(case, 'message names %s %s instead of %s %s' % (raw[0][1], raw[0][2], actp, refp))
                for q, fa, fb in pairs:
                    for p_ in (fa, fb):
                        if not os.path.exists(p_):
                            ctx.fail(case, 'message names %s which does not exist' % p_)
            if got != 'diverge':
                now = open(actp, encoding='utf-8', newline='').read() if os.path.exists(actp) else None
                if now != sa:
                    ctx.fail(case, 'after the assertion the file given as actual (%s, in the temporary directory) holds %r, '
                             'the actual content was %r' % (aname, now, sa))
                if open(refp, encoding='utf-8', newline='').read() != se:
                    ctx.fail(case, 'the reference file was changed')
            for f in os.listdir(tmp):
                os.remove(os.path.join(tmp, f))
            os.remove(refp)
        # ------------------------------------------------ several files in one assertion
        nm = 150 if ctx.quick else 3000
        for it in range(nm):
            o = T.gen_opts(rng)
            k = rng.randint(2, 3)
            files_spec = []
            for j in range(k):
                A, E = T.gen_pair(rng)
                if rng.random() < 0.3:
                    A = E[:]
                sa, se = join_text(rng, A), join_text(rng, E)
                ap = os.path.join(data, 'out%d.txt' % j)
                rp = os.path.join(data, 'ref%d.txt' % j)
                with open(ap, 'w', encoding='utf-8', newline='') as f:
                    f.write(sa)
                with open(rp, 'w', encoding='utf-8', newline='') as f:
                    f.write(se)
                files_spec.append((ap, rp, sa, se))
            kw = dict(lstrip=o['lstrip'], rstrip=o['rstrip'], ignore_substrings=o['ignore_substrings'] or None,
                      ignore_patterns=o['ignore_patterns'] or None, remove_lines=o['remove_lines'] or None,
                      preprocess=T.PREPROCESS[o.get('preprocess')],
                      max_permutation_cases=o['max_permutation_cases'])
            before = snapshot(data)
            try:
                rt.assertTextFilesCorrect([f[0] for f in files_spec], [f[1] for f in files_spec], **kw)
                got, msg = 'pass', ''
            except Failed as ex:
                got, msg = 'fail', str(ex)
            after = snapshot(data)
            written = sorted(os.listdir(tmp))
            case = {'kind': 'multi', 'files': [(f[2], f[3]) for f in files_spec], 'opts': o}
            ctx.count(('M', repr(case)), True)
            ctx.bump('multi.' + got)
            if before != after:
                ctx.fail(case, 'multi-file assertion changed files outside the temporary directory')
            if got == 'pass' and written:
                ctx.fail(case, 'passing multi-file assertion wrote %r' % written)
            pairs = parse_pairs(msg)
            pp = T.PREPROCESS[o.get('preprocess')]
            diverged = 'RecursionError' in msg
            for (ap, rp, sa, se) in files_spec:
                la, le = sa.splitlines(), se.splitlines()
                if pp:
                    la, le = pp(la), pp(le)
                try:
                    want, Uq = T.spec_verdict(la, le, o)
                except (T.Diverges, RecursionError):
                    continue
                base_ = os.path.basename(ap)
                post = [p_ for p_ in pairs if p_[0] == 'post-processed'
                        and os.path.basename(p_[1]) == 'actual-' + base_]
                if want == 'pass' and post and not diverged:
                    ctx.fail(case, 'post-processed pair named for %s, which has no unexcused difference' % base_)
                for q, fa, fb in post:
                    if not (os.path.exists(fa) and os.path.exists(fb)):
                        ctx.fail(case, 'named post-processed file missing: %s %s' % (fa, fb))
                        continue
                    la2 = la[:-1] if la and la[-1] == '' else la
                    le2 = le[:-1] if le and le[-1] == '' else le
                    rem = o['remove_lines'] or []
                    ka = [l for l in la2 if not any(r in l for r in rem)]
                    ke = [l for l in le2 if not any(r in l for r in rem)]
                    if Uq is not None and len(ka) == len(ke):
                        xa, xe = body_of(fa).split('\n'), body_of(fb).split('\n')
                        if xa and xa[-1] == '' and xe and xe[-1] == '':
                            xa, xe = xa[:-1], xe[:-1]
                        diffs = [(a, e) for a, e in zip(xa, xe) if a != e]
                        wantd = [(T._norm(a, o['lstrip'], o['rstrip']), T._norm(e, o['lstrip'], o['rstrip']))
                                 for _, a, e in Uq]
                        if len(xa) != len(xe) or diffs != wantd:
                            ctx.fail(case, 'post-processed pair for %s differs on %r, unexcused differences are %r'
                                     % (base_, diffs, wantd))
            for q, fa, fb in pairs:
                for p_ in (fa, fb):
                    if not os.path.exists(p_):
                        ctx.fail(case, 'message names %s which does not exist' % p_)
            for f in os.listdir(tmp):
                os.remove(os.path.join(tmp, f))
            for f in os.listdir(data):
                os.remove(os.path.join(data, f))
        # ------------------------------------------------ binary
        nb = 400 if ctx.quick else 6000
        bcases = []
        for i in range(nb):
            big = i % 4 == 0
            ln = rng.choice([300, 4097, 8193, 9000, 16385, 20000, 70000]) if big else rng.randint(0, 12)
            e = bytes(rng.randrange(256) if ln < 50 else (k * 7) % 251 for k in range(ln))
            a = bytearray(e)
            op = rng.random()
            if op < 0.15:
                pass
            elif op < 0.6 and a:
                cands = [0, len(a) - 1, rng.randrange(len(a))] + \
                    [p for p in (255, 256, 4095, 4096, 8191, 8192, 8193, 12345, 16383, 16384, 65535, 65536, 65537)
                     if p < len(a)]
                for k in rng.sample(cands, min(len(cands), rng.choice([1, 1, 2]))):
                    a[k] = (a[k] + 1 + rng.randrange(255)) % 256
            elif op < 0.75:
                a = a[:rng.randint(0, len(a))]
                if a and rng.random() < 0.5:
                    k = rng.randrange(len(a))
                    a[k] = (a[k] + 1) % 256
            elif op < 0.9:
                a = a + bytes(rng.randrange(256) for _ in range(rng.randint(1, 4)))
            else:
                a = bytearray(rng.randrange(256) for _ in range(rng.randint(0, 12)))
            bcases.append((bytes(a), e))
        small = [(a, e) for a, e in bcases if len(a) < 400 and len(e) < 400]
        mouts = dict(zip(small, ctx.model.call_many(6, [(list(a), list(e)) for a, e in small]))) \
            if ctx.model_ok else {}
        for a, e in bcases:
            refp = os.path.join(data, 'ref.bin')
            actp = os.path.join(data, 'out.bin')
            open(refp, 'wb').write(e)
            open(actp, 'wb').write(a)
            before = snapshot(data)
            try:
                rt.assertBinaryFileCorrect(actp, refp)
                got, msg = 'pass', None
            except Failed as ex:
                got, msg = 'fail', str(ex)
            after = snapshot(data)
            files = sorted(os.listdir(tmp))
            case = {'kind': 'binary', 'actual': a.hex()[:200], 'expected': e.hex()[:200],
                    'lens': (len(a), len(e))}
            ctx.count(('Bin', a, e), a != e)
            ctx.bump('binary.' + got)
            if before != after or files:
                ctx.fail(case, 'binary assertion wrote files: tmp %r, data changed %r' % (files, before != after))
            true_off = next((k for k in range(min(len(a), len(e))) if a[k] != e[k]), min(len(a), len(e)))
            if (got == 'pass') != (a == e):
                ctx.fail(case, 'binary assertion %s but files are %s' % (got, 'equal' if a == e else 'different'))
            rep = None
            if got == 'fail':
                m = re.search(r'First difference at byte offset (\d+), (?:both files have length (\d+)|'
                              r'actual length (\d+), expected length (\d+))', msg)
                if not m:
                    ctx.fail(case, 'no offset report in message %r' % msg[:300])
                else:
                    off = int(m.group(1))
                    la_, le_ = (int(m.group(2)),) * 2 if m.group(2) else (int(m.group(3)), int(m.group(4)))
                    rep = [off, la_, le_]
                    if (off, la_, le_) != (true_off, len(a), len(e)):
                        ctx.fail(case, 'reported offset/lengths %r, true %r' % ((off, la_, le_),
                                                                                  (true_off, len(a), len(e))))
                for q, fa, fb in parse_pairs(msg):
                    if not (os.path.exists(fa) and os.path.exists(fb)):
                        ctx.fail(case, 'binary message names a missing file: %s %s' % (fa, fb))
            if (a, e) in mouts:
                ctx.cov['traces_validated_against_impl'] += 1
                mo = mouts[(a, e)]
                if (mo == []) != (got == 'pass') or (rep is not None and mo != rep):
                    ctx.mismatch('binary', case, mo, rep)
            os.remove(refp)
            os.remove(actp)
        ctx.sample({'kind': 'binary', 'actual_len': len(bcases[1][0]), 'expected_len': len(bcases[1][1])})
    finally:
        os.chdir(cwd0)
        shutil.rmtree(base, ignore_errors=True)
    # ---- two test classes, each configured (set_defaults) with its own temporary directory, in one process:
    # a failing assertion writes under the directory configured for ITS class and nowhere else
    from tdda.referencetest.referencetest import ReferenceTest as _RT
    base2 = T.workdir()
    try:
        for it in range(12 if ctx.quick else 200):
            da, db = os.path.join(base2, 'a%d' % it), os.path.join(base2, 'b%d' % it)
            os.makedirs(da)
            os.makedirs(db)

            class RA(_RT):
                pass

            class RB(_RT):
                pass
            order = [(RA, da), (RB, db)]
            if rng.random() < 0.5:
                order.reverse()
            for cls, d in order:
                cls.set_defaults(tmp_dir=d, verbose=False)

            class Failed2(Exception):
                pass

            def assert_fn2(cond, msg=None):
                if not cond:
                    raise Failed2(msg)
            who, mine, other = rng.choice([(RA, da, db), (RB, db, da)])
            # sometimes the configured directory is only created after the test object exists (in a setUp)
            late = rng.random() < 0.5
            if late:
                os.rmdir(mine)
            import tempfile as _tf
            systmp = os.path.join(base2, 'systmp%d' % it)
            os.makedirs(systmp)
            saved_tmp = _tf.tempdir
            _tf.tempdir = systmp
            try:
                inst = who(assert_fn2)
            finally:
                _tf.tempdir = saved_tmp
            if late:
                os.makedirs(mine)
                ctx.bump('tmp_dir_created_after_construction')
            refp = os.path.join(base2, 'ref%d.txt' % it)
            with open(refp, 'w') as f:
                f.write('alpha\nbeta\n')
            case = {'scenario': 'two configured classes', 'configured_first': order[0][0].__name__, 'failing': who.__name__}
            ctx.count(repr(case) + str(it), True)
            ctx.bump('two_classes')
            _tf.tempdir = systmp
            try:
                inst.assertStringCorrect('alpha\nBETA\n', refp)
                ctx.fail(case, 'a differing string passed')
            except Failed2:
                pass
            finally:
                _tf.tempdir = saved_tmp
            if os.listdir(systmp):
                ctx.fail(dict(case, tmp_dir_created_after_construction=late),
                         'the failing assertion wrote %r into the system temporary directory, not the configured one'
                         % sorted(os.listdir(systmp))[:4])
            if os.listdir(other):
                ctx.fail(case, 'the failing assertion of %s wrote %r into the directory configured for the other class'
                         % (who.__name__, sorted(os.listdir(other))[:4]))
            elif not os.listdir(mine):
                ctx.fail(case, 'the failing assertion of %s wrote nothing into its configured temporary directory' % who.__name__)
    finally:
        shutil.rmtree(base2, ignore_errors=True)
        _RT.set_defaults(verbose=False)
    ctx.cov['rule'] = ('text: pairs as in C04 through assertStringCorrect/assertTextFileCorrect with a fresh '
                       'temporary directory and a watched data directory; binary: byte strings (0..20000 bytes) '
                       'with single-byte changes at first/last/random offsets, truncations, extensions; '
                       'non-trivial = contents differ; distinct by full case')
    ctx.assumptions += ['os/file-system behaviour is observed, not modelled: the model says which files are '
                        'written and what the post-processed pair contains; paths are tmp_dir + fixed prefix + basename']


def replay(ctx, data):
    print(data.get('what'))
    print(data.get('case'))
    return 0
