""".tdda files round-trip: same text, same verdicts, unknown keys ignored (C09).
Hand-written and discovered constraint sets -> to_json -> file -> load -> to_json (1..3 cycles); text
validity; verdict preservation on generated data; path / dict / re-serialised object agree; the
dictionary level (key filtering and order) against Constraints/Serialise.v."""
import contextlib
import datetime
import io
import json
import math
import os
import shutil

import lib
from lib import dstr
from props import cons as C
from props import textcmp as T

NAMES = ['f0', 'a b', 'é', 'F_3', 'x.y', 'sep name', 'nel\x85x', 'quote"q', 'back\\slash', '雪', 'tab\tname',
         '#items', '# of rows', 'cafe\u0301s', 'Zoe\u0308', '\u2126 ohm', 'caf\u00e9s', 'x,]', 'k, }', '{"q": 1,}']
REXES = [r'^[a-z]+$', r'^\d{4}-\d\d$', r'^a\\b$', r'^"q"$', r'^.*$', r"^it's$", r'^\S+\s\S+$', '^é+$',
         # text that looks like JSON structure inside a string
         r'^[A-Z]{2,}$', r'^[0-9,]+$', r'^\{"k": \[1, \]\}$', r'^a, }$', r'^//x$', r'^/\* c \*/$', r'^\u0041$']
LOOKALIKES = ['a,]', '{a, }', '[1,\n]', '": "', 'x //', '/* y */', 'null', 'true', '{"fields": {}}', ',', ', ]']


def gen_value(rng, t):
    if t == 'int':
        return rng.choice(C.INTS)
    if t == 'real':
        v = rng.choice([x for x in C.REALS if math.isfinite(x)] + [0.1 + 0.2, 1 / 3, 1e-17, 123456789.12345678,
                                                                  5e-324, 1.7976931348623157e308,
                                                                  # the bounds discovery gives a column of +-inf
                                                                  float('inf'), float('-inf')])
        return v
    if t == 'bool':
        return rng.random() < 0.5
    if t == 'string':
        return rng.choice(C.STRINGS + ['u v', 'n\x85e', 'p s'])
    return rng.choice(C.DATES + [datetime.datetime(2021, 3, 4, 5, 6, 7, 249), datetime.datetime(2021, 3, 4, 5, 6, 7, 100000),
                                 datetime.datetime(2021, 3, 4, 5, 6, 7, rng.randrange(1000000)), datetime.datetime(2021, 3, 4, 5, 6, 7, rng.randrange(1000)),
                                 datetime.datetime(1, 1, 1), datetime.datetime(9999, 12, 31, 23, 59, 59, 999999)])


def gen_field(rng):
    t = rng.choice(['int', 'real', 'bool', 'string', 'date'])
    d = {}
    if rng.random() < 0.9:
        d['type'] = t if rng.random() < 0.85 else [t, 'int']
    for k in ('min', 'max'):
        if rng.random() < 0.5:
            v = gen_value(rng, t)
            if isinstance(v, datetime.datetime):
                if 'type' not in d or d['type'] != 'date':
                    d['type'] = 'date'
                v = str(v)
            if rng.random() < 0.1:
                v = None
            p = rng.choice([None, None, 'closed', 'open', 'fuzzy'])
            d[k] = {'value': v, 'precision': p} if p else v
    if t == 'string':
        if rng.random() < 0.5:
            d['min_length'] = rng.randint(0, 3)
        if rng.random() < 0.5:
            d['max_length'] = rng.randint(3, 30)
        if rng.random() < 0.5:
            d['allowed_values'] = sorted(set(gen_value(rng, 'string') for _ in range(rng.randint(0, 4))))
        if rng.random() < 0.5:
            d['rex'] = rng.sample(REXES, rng.randint(1, 3))
    if t in ('int', 'real', 'bool') and rng.random() < 0.5:
        d['sign'] = rng.choice(C.SIGNS + [None])
    if rng.random() < 0.5:
        d['max_nulls'] = rng.choice([0, 1, 5, None])
    if rng.random() < 0.3:
        d['no_duplicates'] = rng.choice([True, False, None])
    items = list(d.items())
    rng.shuffle(items)
    return t, dict(items)


def add_noise(rng, fields):
    """Unknown kinds and # comments that must be ignored."""
    out = {}
    for nm, d in fields.items():
        items = list(d.items())
        if rng.random() < 0.5:
            items.insert(rng.randint(0, len(items)), ('#comment', rng.choice(['note', 5, None, ['x']])))
        if rng.random() < 0.4:
            items.insert(rng.randint(0, len(items)), (rng.choice(['future_kind', 'Min', 'min ']), rng.choice([1, 'x', None])))
        out[nm] = dict(items)
    if rng.random() < 0.3:
        out['only_unknown'] = {'#note': 1, 'mystery': 2}
    return out


def load_from(arg):
    from tdda.constraints.base import DatasetConstraints
    from tdda.constraints.base import native_definite
    if isinstance(arg, dict):
        c = DatasetConstraints()
        with contextlib.redirect_stderr(io.StringIO()):
            c.initialize_from_dict(native_definite(arg))
        return c
    with contextlib.redirect_stderr(io.StringIO()):
        return DatasetConstraints(loadpath=arg)


def data_for(rng, fields_types):
    cols = {}
    n = rng.randint(1, 5)
    for nm, t in fields_types.items():
        col = C.gen_column(rng, t=t, n=n)
        if col['variant'].startswith('category') or col['variant'] in ('dateobj', 'float32'):
            col['variant'] = {'string': 'object', 'date': 'datetime64[us]', 'real': 'float64'}[col['type']]
        cols[nm] = C.normalise_column(col)
    return C.frame_of(cols), cols


def verdicts(df, arg):
    from tdda.constraints import verify_df
    with contextlib.redirect_stderr(io.StringIO()), contextlib.redirect_stdout(io.StringIO()):
        v = verify_df(df.copy(), arg, repair=False)
    return {nm: {k: (None if fr[k] is None else bool(fr[k])) for k in C.KINDS if k in fr} for nm, fr in v.fields.items()}, \
        (int(v.passes), int(v.failures))


def run(ctx):
    rng = ctx.rng
    from tdda.constraints import discover_df
    n = 400 if ctx.quick else 12000
    work = T.workdir()
    payloads, expect, written = [], [], []
    try:
        for it in range(n):
            nf = rng.randint(1, 3)
            names = rng.sample(NAMES, nf)
            types, fields = {}, {}
            for nm in names:
                t, d = gen_field(rng)
                if d:
                    fields[nm] = d
                    types[nm] = t
            if not fields:
                continue
            source = 'hand'
            if it % 5 == 0:
                # discovered constraint sets
                from props.c07 import gen_frame_cols
                cols = gen_frame_cols(rng)
                with contextlib.redirect_stderr(io.StringIO()), contextlib.redirect_stdout(io.StringIO()):
                    cs0 = discover_df(C.frame_of(cols), inc_rex=rng.random() < 0.5)
                if cs0 is None:
                    continue
                fields = json.loads(json.dumps(cs0.to_dict()['fields']))
                types = {nm: c['type'] for nm, c in cols.items() if nm in fields}
                source = 'discovered'
            noisy = add_noise(rng, fields)
            case = {'fields': repr(noisy), 'source': source}
            ctx.count(repr(case), True)
            ctx.bump('source.' + source)
            for d in fields.values():
                for k in d:
                    ctx.bump('kind.' + k)
            given = {'fields': noisy}
            meta = None
            if rng.random() < 0.4:
                # creation metadata with boundary values (no records, empty names): written, so it must come back
                meta = {'local_time': '2024-01-02 03:04:05', 'utc_time': '2024-01-02 03:04:05',
                        'creator': rng.choice(['TDDA 2.0', '']), 'source': rng.choice(['data.csv', '']),
                        'host': rng.choice(['h', '']), 'user': rng.choice(['me', '']),
                        'n_records': rng.choice([0, 0, 7]), 'n_selected': rng.choice([0, 7])}
                given = {'creation_metadata': meta, 'fields': noisy}
                ctx.bump('with_creation_metadata')
            try:
                c0 = load_from(given)
                t1 = c0.to_json()
                written.append((case, c0.to_dict(), t1))
            except Exception as e:
                ctx.fail(case, 'loading / serialising a documented-format constraint set raised %s: %s'
                         % (type(e).__name__, str(e)[:300]), finding=classify_exc(noisy, e))
                continue
            # ---- text properties
            try:
                t1.encode('utf-8')
                parsed = json.loads(t1)
            except Exception as e:
                ctx.fail(case, 'written text is not valid UTF-8 JSON: %s' % str(e)[:200])
                continue
            if any(l != l.rstrip() for l in t1.split('\n')):
                ctx.fail(case, 'written text has trailing whitespace')
            # ---- the written values are the given values (kind by kind, for the standard kinds)
            for nm, d in fields.items():
                w = parsed['fields'].get(nm, {})
                for k, v in d.items():
                    if k in C.KINDS and (k not in w or w[k] != v) and not (isinstance(v, float) and v != v):
                        gv = v.get('value') if isinstance(v, dict) else v
                        wv = w.get(k)
                        wv = wv.get('value') if isinstance(wv, dict) else wv
                        fnd = None
                        import re as _re
                        if isinstance(gv, str) and _re.match(r'^\d{4}-\d\d-\d\d$', gv) and wv == gv + ' 00:00:00':
                            fnd = 'c09-date-only-bounds'
                        ctx.fail(case, 'field %r kind %s: given %r, written %r' % (nm, k, v, w.get(k, '<absent>')),
                                 finding=fnd)
            # ---- cycles
            # (the same two paths are written over and over, as a file that is re-saved is)
            path = os.path.join(work, 'c%d.tdda' % (it % 2))
            text = t1
            ok = True
            if meta is not None:
                wm = json.loads(t1).get('creation_metadata', {})
                lost = {k: v for k, v in meta.items() if wm.get(k) != v}
                if lost:
                    ctx.fail(case, 'creation metadata given as %r is written as %r' % (lost, {k: wm.get(k, '<absent>') for k in lost}))
            for cyc in range(rng.randint(1, 3)):
                with open(path, 'w', encoding='utf-8') as f:
                    f.write(text)
                try:
                    c1 = load_from(path)
                    t2 = c1.to_json()
                except Exception as e:
                    ctx.fail(case, 'cycle %d: re-loading the written file raised %s: %s'
                             % (cyc + 1, type(e).__name__, str(e)[:300]))
                    ok = False
                    break
                # a set loaded from a path records that path as creation metadata; everything else is identical
                m1_, m2_ = (json.loads(x).get('creation_metadata', {}) for x in (text, t2))
                m1_.pop('tddafile', None)
                m2_.pop('tddafile', None)
                if m1_ != m2_:
                    ctx.fail(case, 'cycle %d: creation metadata changed after write/load: %r -> %r'
                             % (cyc + 1, {k: v for k, v in m1_.items() if m2_.get(k) != v},
                                {k: m2_.get(k, '<absent>') for k in m1_ if m2_.get(k) != m1_[k]}))
                    ok = False
                    break
                if strip_meta_text(t2) != strip_meta_text(text) or (cyc > 0 and t2 != text):
                    ctx.fail(case, 'cycle %d: text changed after write/load: %r -> %r'
                             % (cyc + 1, first_diff(text, t2), first_diff(t2, text)))
                    ok = False
                    break
                text = t2
            if not ok:
                continue
            # ---- the loaded object after it has been serialised and verified with: a constraint edited in place on the
            # object is what is then written (the set that is written is the set as it is now)
            try:
                before = c1.to_json()
                if True:
                    edited = json.loads(before)
                    changed = False
                    for nm in list(c1.fields.keys()):
                        fc_ = c1.fields[nm]
                        for k in ('max_nulls', 'min_length', 'max_length'):
                            if k in fc_.constraints and isinstance(fc_.constraints[k].value, int) and rng.random() < 0.7:
                                fc_.constraints[k].value = fc_.constraints[k].value + 41
                                edited['fields'][nm][k] = edited['fields'][nm][k] + 41
                                changed = True
                        for k in ('min', 'max'):
                            cobj = fc_.constraints.get(k)
                            if cobj is not None and type(cobj.value) is int and rng.random() < 0.7:
                                cobj.value = cobj.value - 13
                                if isinstance(edited['fields'][nm][k], dict):
                                    edited['fields'][nm][k]['value'] -= 13
                                else:
                                    edited['fields'][nm][k] -= 13
                                changed = True
                    if changed:
                        ctx.bump('edited_in_place')
                        got_t = c1.to_json()
                        want_t = json.dumps(edited, indent=4, ensure_ascii=False)
                        want_t = '\n'.join(l.rstrip() for l in want_t.splitlines()) + '\n'
                        if json.loads(got_t) != edited:
                            ctx.fail(case, 'a constraint edited in place on the loaded object is not what the object then writes: %r, '
                                     'expected %r' % (first_diff(got_t, want_t), first_diff(want_t, got_t)))
            except Exception as e:
                ctx.fail(case, 'using the loaded object after serialising it raised %s: %s' % (type(e).__name__, str(e)[:200]))
            # ---- unknown kinds / comments ignored; only-unknown fields vanish
            clean = load_from({'fields': fields}).to_json()
            if strip_meta(clean) != strip_meta(t1):
                ctx.fail(case, 'unknown kinds or # keys changed the serialised constraints: %r vs %r'
                         % (first_diff(strip_meta(t1), strip_meta(clean)), first_diff(strip_meta(clean), strip_meta(t1))))
            # ---- verdicts: dict, path and re-serialised object agree on generated data
            try:
                df, dcols = data_for(rng, types)
                va = verdicts(df, {'fields': noisy})
                # the loaded bounds mean what the given bounds mean (dates and precision dictionaries included)
                if source == 'hand':
                    for nm, d in fields.items():
                        for k in ('min', 'max'):
                            if k not in d or nm not in dcols or nm not in va[0] or k not in va[0][nm]:
                                continue
                            gv = d[k]
                            spec = dict(gv) if isinstance(gv, dict) else {'value': gv}
                            if spec.get('value') is None:
                                continue
                            if dcols[nm]['type'] == 'date':
                                if not isinstance(spec['value'], str):
                                    continue
                                spec['value'] = datetime.datetime.fromisoformat(spec['value'])
                            elif isinstance(spec['value'], str) and dcols[nm]['type'] != 'string':
                                continue
                            if dcols[nm]['type'] == 'string' or isinstance(d.get('type'), list):
                                continue
                            want = C.meaning(k, spec, dcols[nm], 0.0, False)
                            if va[0][nm][k] is not want:
                                ctx.fail(dict(case, field=nm, kind=k, data=repr(dcols[nm]['cells'])[:300]),
                                         'after loading, %s=%r on %r is reported %r, its documented meaning on this data is %r'
                                         % (k, gv, nm, va[0][nm][k], want))
                vb = verdicts(df, path)
                vc = verdicts(df, json.loads(text))
                if not (va == vb == vc):
                    ctx.fail(case, 'verdicts differ between dict %r, file %r and re-serialised %r' % (va, vb, vc))
            except Exception as e:
                ctx.bump('verdict.raised.' + type(e).__name__)
            # ---- the set written again AFTER data has been verified with it (object, dictionary and file were all used
            # above): the same text as before - verifying does not change what is written
            try:
                t_after = c0.to_json()
                if strip_meta_text(t_after) != strip_meta_text(t1):
                    ctx.fail(case, 'after data was verified with the set it serialises differently: %r -> %r'
                             % (first_diff(t1, t_after), first_diff(t_after, t1)))
                t_dict = load_from({'fields': noisy}).to_json()
                if strip_meta_text(t_dict) != strip_meta_text(t1):
                    ctx.fail(case, 'after data was verified with the dictionary it serialises differently: %r -> %r'
                             % (first_diff(t1, t_dict), first_diff(t_dict, t1)))
            except Exception as e:
                ctx.fail(case, 'after data was verified with the set it can no longer be written: %s: %s' % (type(e).__name__, str(e)[:200]))
                continue
            # ---- model: surviving keys and their order
            payloads.append([(nm, [(k, 0) for k in d]) for nm, d in noisy.items()])
            expect.append((case, [(nm, list(d.keys())) for nm, d in parsed['fields'].items()]))
            if it < 2:
                ctx.sample({'fields': repr(noisy)[:500], 'text': t1[:300]})
        json_layer(ctx, written)
        mouts = ctx.model.call_many(12, payloads) if ctx.model_ok else []
        for (case, want), mo in zip(expect, mouts):
            ctx.cov['traces_validated_against_impl'] += 1
            got = [(dstr(nm), [dstr(k) for k, _ in f]) for nm, f in mo]
            if got != want:
                ctx.mismatch('dump(load(d)) keys', case, got, want)
    finally:
        shutil.rmtree(work, ignore_errors=True)
    ctx.cov['rule'] = ('hand-written constraint sets over every kind (dates with fractions, 17-digit floats, non-ASCII / '
                       'U+0085 / U+2028 names and values, escapes, precision dictionaries, null values, shuffled key order) '
                       'with unknown kinds and # keys mixed in, and discovered sets; 1-3 write/load cycles; verdicts on '
                       'generated data via dict, path and re-serialised text')
    ctx.assumptions += ['the text of a .tdda file is modelled (Constraints/Json.v printer, strip_lines, strict parser) and compared '
                        'with CPython json on every written text; the VALUE of a number token (int()/float()/repr) and the text of '
                        'dates (str(datetime), get_date) are CPython\'s and tdda\'s, exercised here, not modelled']


# ---------------------------------------------------------------- the TEXT layer: Constraints/Json.v vs CPython json
def jv_enc(v):
    """Python JSON value -> wire form of Json.v's jv (numbers as the token json.dumps writes)."""
    if v is None:
        return [0]
    if v is True or v is False:
        return [1, v]
    if isinstance(v, int):
        return [2, int.__repr__(v)]
    if isinstance(v, float):
        return [2, 'NaN' if v != v else 'Infinity' if v == math.inf else '-Infinity' if v == -math.inf else float.__repr__(v)]
    if isinstance(v, str):
        return [3, v]
    if isinstance(v, (list, tuple)):
        return [4, [jv_enc(x) for x in v]]
    if isinstance(v, dict):
        return [5, [[str(k), jv_enc(x)] for k, x in v.items()]]
    raise TypeError(type(v).__name__)


def jv_dec(x):
    """wire form -> comparable Python value; number tokens are converted as the scanner does (int or float)"""
    tag = x[0]
    if tag == 0:
        return None
    if tag == 1:
        return bool(x[1])
    if tag == 2:
        tok = dstr(x[1])
        if tok in ('NaN', 'Infinity', '-Infinity'):
            return ('float', tok)
        if any(c in tok for c in '.eE'):
            return py_canon(float(tok))       # (a token such as 1E+999 is read as infinity)
        return ('int', int(tok))
    if tag == 3:
        return ('str', dstr(x[1]))
    if tag == 4:
        return [jv_dec(y) for y in x[1]]
    return ('obj', [(dstr(k), jv_dec(y)) for k, y in x[1]])


def py_canon(v):
    if v is None or v is True or v is False:
        return v
    if isinstance(v, int):
        return ('int', v)
    if isinstance(v, float):
        return ('float', 'NaN' if v != v else 'Infinity' if v == math.inf else '-Infinity' if v == -math.inf else float.__repr__(v))
    if isinstance(v, str):
        return ('str', v)
    if isinstance(v, list):
        return [py_canon(x) for x in v]
    return ('obj', [(k, py_canon(x)) for k, x in v.items()])


JSTRS = ['', 'a', 'a b', 'é', '雪', 'q"q', 'b\\s', 'nl\nx', 'cr\rx', 'tab\tx', '\x08\x0c', '\x00', '\x1f\x1e\x1c', '\x7f', '\x85', '\xa0 ',
         ' lead', 'trail ', 'trail\t', '\u2028\u2029', '\U0001d518', '/', '\\u0041', 'x\\', '^\\d+$', '{', '[1,2]', ': ', ',', '\ud800',
         '\udc00x', '#c', 'null', 'NaN']
JNUMS = [0, 1, -1, 10, 123456789012345678901234567890, -0.0, 0.5, 1e22, 1e-7, 1.5e300, 5e-324, 0.1 + 0.2, 1 / 3, -2.5e-5,
         float('nan'), float('inf'), float('-inf'), 1e16, 123456.789, 2 ** 63]


def gen_json(rng, depth=0):
    k = rng.random()
    if depth >= 3 or k < 0.45:
        r = rng.random()
        if r < 0.4:
            return rng.choice(JSTRS) if rng.random() < 0.7 else ''.join(rng.choice(JSTRS) for _ in range(3))
        if r < 0.75:
            return rng.choice(JNUMS) if rng.random() < 0.7 else rng.choice([rng.randrange(-10 ** 6, 10 ** 6), rng.uniform(-1e3, 1e3), rng.random() * 10 ** rng.randint(-30, 30)])
        return rng.choice([None, True, False])
    if k < 0.7:
        return [gen_json(rng, depth + 1) for _ in range(rng.choice([0, 1, 2, 3]))]
    d = {}
    for _ in range(rng.choice([0, 1, 2, 4])):
        d[rng.choice(JSTRS + ['k1', 'k2', 'fields', 'type'])] = gen_json(rng, depth + 1)
    return d


def mutate_text(rng, t):
    """hand-written / damaged variants of a valid JSON text"""
    k = rng.randrange(12)
    if k == 0 and t:
        i = rng.randrange(len(t))
        return t[:i] + t[i + 1:]
    if k == 1:
        i = rng.randrange(len(t) + 1)
        return t[:i] + rng.choice(['"', '\\', ',', ' ', '\n', '\t', '}', ']', '0', '-', '.', 'e', '\\u00e9', '\\ud834\\udd1e', '\\ud834', '\\/', '\\x',
                                    '\r', '\x0c', '\x00', 'NaN', 'Infinity', 'nul', 'true', '1.', '01', '+1', '1e', '1E+5', '\u00a0']) + t[i:]
    if k == 2:
        return json.dumps(json.loads(t)) if _loads_ok(t) else t          # compact one-line form
    if k == 3:
        return json.dumps(json.loads(t), ensure_ascii=True, indent=rng.choice([None, 1, 2])) if _loads_ok(t) else t
    if k == 4:
        return t.replace('\n', '\r\n')
    if k == 5:
        return ' \t\n' + t + ' \r\n '
    if k == 6:
        return t.replace(',', ',,', 1)
    if k == 7:
        return t.replace('": ', '" :\t', 1)
    if k == 8:
        return t.rstrip()[:-1] + ',' + t.rstrip()[-1:] if t.strip() else t   # trailing comma
    if k == 9:
        return '{"k": 1, "k": 2, "j": 3, "k": {"a": 1, "a": [2]}}' if rng.random() < 0.3 else t + t
    if k == 10:
        return rng.choice(['', ' ', '[', '{', '"', '-', '[1,]', '{"a"}', '{"a":}', '{1: 2}', '[1 2]', "['a']", '"\t"', '"\\u12"', '"\\u12G4"',
                           '"\\uD834\\u0041"', '"\\uD834\\uDD1E"', '"\\ud834\\ud834\\udd1e"', '-Infinity', '-Inf', '-0', '-01', '0.5e-3', '1.5E3',
                           '2e', '2e+', '.5', '1.e3', 'tru', 'nullx', 'null x', '[[[[]]]]', '{"a": {"b": {"c": {}}}}', '\ufeff[]', '[1]x'])
    return t


def _loads_ok(t):
    try:
        json.loads(t)
        return True
    except Exception:
        return False


def json_layer(ctx, written):
    """written: [(case, dict given to json.dumps, text returned by to_json)] from the constraint runs."""
    if not ctx.model_ok:
        return
    from tdda.constraints.base import strip_lines
    from collections import OrderedDict
    rng = ctx.rng
    # ---- printing: the model's text for the dictionary is the text to_json returned
    vals = [(case, d, t) for case, d, t in written]
    n = 300 if ctx.quick else 8000
    for _ in range(n):
        v = gen_json(rng)
        t = strip_lines(json.dumps(v, indent=4, ensure_ascii=False)) + '\n'
        vals.append(({'json_value': repr(v)[:1500]}, v, t))
    outs = ctx.model.call_many(32, [jv_enc(d) for _, d, _ in vals])
    for (case, d, t), mo in zip(vals, outs):
        ctx.cov['traces_validated_against_impl'] += 1
        ctx.count(('J', repr(case)[:3000]), True)
        ctx.bump('json.print')
        if dstr(mo) != t:
            ctx.mismatch('json text written', case, first_diff(t, dstr(mo)), first_diff(dstr(mo), t))
    # ---- the hypothesis of the round-trip theorems (C09_text_is_valid_json ...): every value written is well-formed
    outs = ctx.model.call_many(34, [jv_enc(d) for _, d, _ in vals])
    nwf = 0
    for (case, d, t), mo in zip(vals, outs):
        if mo != 1:
            nwf += 1
            ctx.mismatch('round-trip theorem hypothesis (wfb)', case, 'wfb = false', 'a value json.dumps wrote')
    ctx.extra['wf_hypothesis_checked'] = len(vals)
    ctx.extra['wf_hypothesis_failed'] = nwf
    # ---- parsing: the model reads every written text, and damaged / hand-written variants, as json.loads does
    texts = []
    for case, d, t in vals:
        texts.append((case, t))
        for _ in range(2):
            texts.append((dict(case, variant='hand-written or damaged'), mutate_text(rng, t)))
    outs = ctx.model.call_many(33, [t for _, t in texts])
    for (case, t), mo in zip(texts, outs):
        ctx.cov['traces_validated_against_impl'] += 1
        try:
            want = ('ok', py_canon(json.loads(t, object_pairs_hook=OrderedDict)))
        except RecursionError:
            continue
        except Exception:
            want = ('error',)
        got = ('error',) if mo == [] else ('ok', jv_dec(mo[0]))
        ctx.bump('json.parse.' + want[0])
        if got != want:
            ctx.mismatch('json text read', dict(case, text=t[:1500]), repr(got)[:600], repr(want)[:600])


def strip_meta_text(text):
    d = json.loads(text)
    if 'creation_metadata' not in d:
        return text
    d.pop('creation_metadata')
    from tdda.constraints.base import strip_lines
    return strip_lines(json.dumps(d, indent=4, ensure_ascii=False)) + '\n'


def strip_meta(text):
    d = json.loads(text)
    d.pop('creation_metadata', None)
    return json.dumps(d, sort_keys=False, ensure_ascii=False)


def first_diff(a, b):
    i = 0
    while i < min(len(a), len(b)) and a[i] == b[i]:
        i += 1
    return a[max(0, i - 30):i + 40]


def classify_exc(noisy, e):
    return None


def replay(ctx, data):
    print(data.get('what'))
    return 0
