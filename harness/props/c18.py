"""C18 - rexpy coverage figures equal true match counts and account for all examples.
Extractor.coverage / incremental_coverage / full_incremental_coverage / n_examples on generated
multisets vs an independent recount with re, and vs Rexpy/Coverage.v fed with the match oracle."""
import collections
import contextlib
import io
import re

import lib
from lib import dstr
from props import rex as R


def terminate(p):
    return ('' if p.startswith('^') else '^') + p + ('' if p.endswith('$') else '$')


def run(ctx):
    rng = ctx.rng
    from tdda.rexpy.rexpy import Extractor
    n = 500 if ctx.quick else 20000
    cases, payloads, tpayloads = [], [], []
    for it in range(n):
        ex = R.gen_examples(rng)
        opts = R.gen_opts(rng)
        if it % 25 == 7:
            # more than a hundred distinct strings at the default sizes: still well below the 4000 from which the
            # default settings sample, so every figure is about the supplied examples
            k = rng.randint(101, 260)
            ex = ['%s-%04d' % (rng.choice(['AB', 'cd', 'X']), j) for j in rng.sample(range(10000), k)] + \
                 ['w%d.%d' % (j, j * 7) for j in range(rng.randint(0, 40))] + ['rep'] * rng.randint(0, 5)
            rng.shuffle(ex)
            opts = {k_: v_ for k_, v_ in opts.items() if k_ in ('dialect', 'tag')}
            ctx.bump('over_100_distinct')
        if it % 25 == 11:
            # overlapping expressions: lines with more than 99 runs of character classes fall back to ^.{n}$, which also
            # matches the other examples of that length (ruler lines with an expression of their own)
            w = rng.choice([119, 121])
            row = lambda k_: (','.join(str((j_ * k_) % 10) for j_ in range(70)))[:w]
            ex = [row(1), row(3), row(7)][:rng.choice([2, 3])] + ['=' * w] * rng.choice([1, 2]) + ['-' * w] + ['short', 'x1']
            rng.shuffle(ex)
            opts = {k_: v_ for k_, v_ in opts.items() if k_ in ('dialect', 'tag')}
            ctx.bump('overlapping_expressions')
        form = rng.choice(['list', 'list', 'dict', 'bytes-list', 'bytes-dict', 'extract-list', 'iterator', 'generator'])
        if form in ('dict', 'bytes-dict'):
            cnt = {}
            for s in ex:
                cnt[s] = cnt.get(s, 0) + 1
            if rng.random() < 0.3:
                cnt['zero-count'] = 0
            arg = cnt
        else:
            arg = list(ex)
            if rng.random() < 0.2 and form == 'list':
                arg.insert(rng.randint(0, len(arg)), None)
        case = {'examples': repr(arg), 'opts': opts, 'form': form}
        kw = {}
        if it % 4 == 3:
            # small size settings, so that the examples are sampled and failures are added back in later passes
            from tdda.rexpy.rexpy import Size
            spec = dict(do_all=rng.choice([2, 5]), do_all_exceptions=rng.choice([2, 4]),
                        n_per_length=rng.choice([1, 2]), max_sampled_attempts=rng.choice([1, 2]))
            kw = {'size': Size(**spec), 'seed': rng.choice([0, 3])}
            case['size'] = spec
            case['seed'] = kw['seed']
            ctx.bump('sampling_sizes')
        if it % 7 == 2:
            # pruning settings: the figures are about the expressions that remain
            kw = dict(kw, **rng.choice([{'max_patterns': 1}, {'max_patterns': 2}, {'min_strings_per_pattern': 2}]))
            case['pruning'] = {k_: v_ for k_, v_ in kw.items() if k_ in ('max_patterns', 'min_strings_per_pattern')}
            ctx.bump('pruning')
        if it % 5 == 1:
            # progress output switched on (it goes to stdout): the figures are the same
            kw = dict(kw, verbose=rng.choice([1, 2, 3]))
            case['verbose'] = kw['verbose']
            ctx.bump('verbose')
        try:
            with contextlib.redirect_stdout(io.StringIO()):
                if form.startswith('bytes'):
                    # encoded examples through the module-level extract(..., encoding=, as_object=True)
                    import tdda.rexpy.rexpy as rx_
                    enc = rng.choice(['utf-8', 'utf-16-le', 'utf-32-be'])
                    case['encoding'] = enc
                    barg = ({s_.encode(enc, 'surrogatepass'): n_ for s_, n_ in arg.items()} if isinstance(arg, dict)
                            else [s_.encode(enc, 'surrogatepass') for s_ in arg])
                    x = rx_.extract(barg, encoding=enc, as_object=True, **dict(opts, **kw))
                elif form in ('iterator', 'generator'):
                    # examples supplied as a one-shot iterable (a generator, the lines of an open file ...)
                    x = Extractor(iter(list(arg)) if form == 'iterator' else (s_ for s_ in list(arg)), **dict(opts, **kw))
                elif form == 'extract-list':
                    import tdda.rexpy.rexpy as rx_
                    x = rx_.extract(arg, as_object=True, **dict(opts, **kw))
                else:
                    x = Extractor(arg, **dict(opts, **kw))
        except Exception as e:
            ctx.count(repr(case), True)
            ctx.fail(case, 'Extractor raised %s: %s' % (type(e).__name__, str(e)[:200]), finding=None)
            continue
        want_counter = R.cleaned(arg, opts)
        rexes = list(x.results.rex) if x.results else []
        ctx.count(repr(case), len(want_counter) > 1)
        ctx.bump('form.' + form)
        ctx.bump('nrex.%d' % min(len(rexes), 5))
        # ---- the reported number of examples equals the number supplied (after explicit discards)
        sampled = bool(kw) and set(x.examples.strings) < set(want_counter) and \
            all(want_counter[s_] == f_ for s_, f_ in zip(x.examples.strings, x.examples.freqs))
        if sampled:
            # recorded finding: under sampling the figures describe the working sample, not the supplied examples.
            # They must still be exact and consistent for that sample (checked below).
            ctx.fail(case, 'under sampling n_examples is %r / %r, supplied %r / %r distinct'
                     % (x.n_examples(), x.n_examples(dedup=True), sum(want_counter.values()), len(want_counter)),
                     finding='c18-sampled-figures')
            want_counter = collections.OrderedDict(zip(x.examples.strings, x.examples.freqs))
        if x.n_examples() != sum(want_counter.values()) or x.n_examples(dedup=True) != len(want_counter):
            ctx.fail(case, 'n_examples %r / %r, %s %r / %r distinct'
                     % (x.n_examples(), x.n_examples(dedup=True), 'the working sample has' if sampled else 'supplied',
                        sum(want_counter.values()), len(want_counter)))
        if not rexes:
            continue
        strings = list(want_counter.keys())
        freqs = [want_counter[s] for s in strings]
        if sorted(x.examples.strings) != sorted(strings):
            ctx.fail(case, 'stored examples %r differ from the supplied ones %r' % (x.examples.strings, strings))
            continue
        # ---- coverage: exact
        for dedup in (False, True):
            got = x.coverage(dedup=dedup)
            want = [sum((1 if dedup else f) for s, f in zip(strings, freqs) if R.matches(terminate(r), s)) for r in rexes]
            if list(got) != want:
                ctx.fail(case, 'coverage(dedup=%r) %r, true match counts %r for %r' % (dedup, list(got), want, rexes))
        # ---- incremental coverage: order, partition, totals
        every_matched = not R.unmatched([terminate(r) for r in rexes], strings)
        for dedup in (False, True):
            inc = x.incremental_coverage(dedup=dedup)
            full = x.full_incremental_coverage(dedup=dedup)
            vals = list(inc.values())
            if any(a < b for a, b in zip(vals, vals[1:])):
                ctx.fail(case, 'incremental coverage (dedup=%r) is not non-increasing: %r' % (dedup, vals))
            # each example credited to exactly one expression: the first listed one that matches it
            credit = {k: 0 for k in inc}
            for s, f in zip(strings, freqs):
                for k in inc:
                    if R.matches(k, s):
                        credit[k] += (1 if dedup else f)
                        break
            if list(credit.values()) != vals:
                ctx.fail(case, 'incremental coverage (dedup=%r) %r, crediting each example once in the listed order '
                         'gives %r' % (dedup, dict(inc), credit))
            total = len(strings) if dedup else sum(freqs)
            if every_matched and sum(vals) != total:
                ctx.fail(case, 'incremental coverage (dedup=%r) sums to %d, number of examples %d' % (dedup, sum(vals), total))
            for k, c in full.items():
                wn = sum(f for s, f in zip(strings, freqs) if R.matches(k, s))
                wu = sum(1 for s in strings if R.matches(k, s))
                if (c.n, c.n_uniq) != (wn, wu):
                    ctx.fail(case, 'full_incremental_coverage %r: n/n_uniq %r, true %r' % (k, (c.n, c.n_uniq), (wn, wu)))
                if (c.incr_uniq if dedup else c.incr) != inc[k]:
                    ctx.fail(case, 'full and plain incremental coverage disagree for %r' % k)
                if terminate(rexes[c.index]) != k:
                    ctx.fail(case, 'index %d of %r does not point at it in the result list' % (c.index, k))
        # ---- model: match oracle in the model's own (sorted) pattern order
        order = sorted(range(len(rexes)), key=lambda i: (terminate(rexes[i]), i))
        spat = [terminate(rexes[i]) for i in order]
        ex_order = list(x.examples.strings)
        fmap = dict(zip(strings, freqs))
        rows = [(fmap[s], [R.matches(p, s) for p in spat]) for s in ex_order]
        cases.append((case, x, rexes, order, spat))
        payloads.append((rows, len(spat)))
        tpayloads.append(rexes)
        if it < 2:
            ctx.sample({'examples': repr(arg)[:300], 'opts': opts, 'rex': rexes,
                        'coverage': list(x.coverage()), 'incremental': list(x.incremental_coverage().items())})
    mouts = ctx.model.call_many(14, payloads) if ctx.model_ok else []
    touts = ctx.model.call_many(15, tpayloads) if ctx.model_ok else []
    for (case, x, rexes, order, spat), mo, to in zip(cases, mouts, touts):
        ctx.cov['traces_validated_against_impl'] += 1
        got_t = [(dstr(p), i) for p, i in to]
        if got_t != [(spat[k], order[k]) for k in range(len(order))]:
            ctx.mismatch('terminate_and_sort', case, got_t, list(zip(spat, order)))
            continue
        inv = {oi: k for k, oi in enumerate(order)}
        m_cov = [mo[0][inv[i]] for i in range(len(rexes))]
        m_cov_u = [mo[1][inv[i]] for i in range(len(rexes))]
        if m_cov != list(x.coverage()) or m_cov_u != list(x.coverage(dedup=True)):
            ctx.mismatch('coverage', case, (m_cov, m_cov_u), (list(x.coverage()), list(x.coverage(dedup=True))))
        for dedup, mi in ((False, mo[2]), (True, mo[3])):
            full = x.full_incremental_coverage(dedup=dedup)
            got = [(k, c.n, c.n_uniq, c.incr, c.incr_uniq, c.index) for k, c in full.items()]
            want = [(spat[c[0]], c[1], c[2], c[3], c[4], order[c[0]]) for c in mi]
            if got != want:
                ctx.mismatch('incremental(dedup=%r)' % dedup, case, want, got)
        if (mo[4], mo[5]) != (x.n_examples(), x.n_examples(dedup=True)):
            ctx.mismatch('n_examples', case, (mo[4], mo[5]), (x.n_examples(), x.n_examples(dedup=True)))
    ctx.cov['rule'] = ('example multisets (with repeats, families that align/merge, metacharacters, unicode) as list / '
                       'frequency dict (incl. zero counts, nulls) x extraction options x dialect; every figure recounted '
                       'with re; non-trivial = more than one distinct example')
    ctx.assumptions += ['re.match is the match oracle (one bool per example and expression) fed to the Coq model of the '
                        'greedy incremental-coverage loop']


def replay(ctx, data):
    print(data.get('what'))
    return 0
