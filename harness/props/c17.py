"""C17 - the tdda command line gives the same constraints and verdicts as the library.
Layer A: verify_flags / detect_flags (the real functions, in-process) vs Constraints/Cli.v over every
flag combination.  Layer B: python -m tdda.constraints.console discover|verify|detect on generated CSV
and parquet files vs the library on the frame loaded from that file; error invocations."""
import contextlib
import io
import itertools
import json
import os
import re
import shutil
import subprocess
from concurrent.futures import ProcessPoolExecutor

import lib
from lib import dstrs, dopt
from props import cons as C
from props import textcmp as T


def impl_verify_flags(args):
    from tdda.constraints.flags import verify_parser, verify_flags
    params = {}
    try:
        with contextlib.redirect_stderr(io.StringIO()):
            verify_flags(verify_parser(), args, params)
    except SystemExit as e:
        return ('exit', e.code)
    return params


def impl_discover_flags(args):
    from tdda.constraints.flags import discover_parser, discover_flags
    params = {}
    try:
        with contextlib.redirect_stderr(io.StringIO()):
            discover_flags(discover_parser(), args, params)
    except SystemExit as e:
        return ('exit', e.code)
    return params


def impl_detect_flags(args):
    from tdda.constraints.flags import detect_parser, detect_flags
    params = {}
    try:
        with contextlib.redirect_stderr(io.StringIO()):
            detect_flags(detect_parser(), args, params)
    except SystemExit as e:
        return ('exit', e.code)
    return params


def layer_a(ctx):
    # verify: all/fields/ascii x type_checking x epsilon
    cases, payloads = [], []
    for a, f, s7 in itertools.product([0, 1], repeat=3):
        for tc in (None, 'strict', 'sloppy'):
            for eps in (None, 0, 1, 5):
                args = (['-a'] if a else []) + (['--fields'] if f else []) + (['-7'] if s7 else []) + \
                    (['-t', tc] if tc else []) + (['--epsilon', str(eps)] if eps is not None else [])
                cases.append(('verify', args))
                payloads.append((0, bool(a), bool(f), bool(s7), [] if tc is None else [tc == 'strict'],
                                 [] if eps is None else [eps]))
    for r, nr, s7 in itertools.product([0, 1], repeat=3):
        for rf, nf in ((('-r', '-R'), ('--rex', '--norex')) if True else ()):
            args = ([rf] if r else []) + ([nf] if nr else []) + (['-7'] if s7 else [])
            cases.append(('discover', args))
            payloads.append((2, bool(r), bool(nr)))
    dflag_names = ['-7', '--write-all', '--per-constraint', '--no-per-constraint', '--no-output-fields',
                   '--interleave', '--index', '--int']
    for bits in itertools.product([0, 1], repeat=len(dflag_names)):
        for of in (None, [], ['a'], ['a', 'b'], ['x,y'], ['a', 'b,c d']):
            for tc in (None, 'strict'):
                args = [n for n, b in zip(dflag_names, bits) if b] + (['-t', tc] if tc else [])
                if of is not None:
                    args += ['--output-fields'] + of
                cases.append(('detect', args))
                b = dict(zip(dflag_names, bits))
                payloads.append((1, bool(b['-7']), [] if tc is None else [tc == 'strict'], [], bool(b['--write-all']),
                                 bool(b['--per-constraint']), bool(b['--no-per-constraint']),
                                 bool(b['--no-output-fields']), [] if of is None else [of],
                                 bool(b['--interleave']), bool(b['--index']), bool(b['--int'])))
    mouts = ctx.model.call_many(13, payloads) if ctx.model_ok else [None] * len(cases)
    for (cmd, args), mo in zip(cases, mouts):
        ctx.count(('A', cmd, tuple(args)), bool(args))
        if cmd == 'verify':
            got = impl_verify_flags(args)
            want = None
            if mo is not None and mo == []:
                want = ('exit', 1)
            elif mo is not None:
                mo = mo[0]
                want = {'report': ['all', 'fields', 'records'][mo[0]], 'ascii': bool(mo[1])}
                if mo[2] != []:
                    want['type_checking'] = 'strict' if mo[2][0] else 'sloppy'
                if mo[3] != []:
                    want['epsilon'] = float(mo[3][0])
        elif cmd == 'discover':
            got = impl_discover_flags(args)
            want = None
            if mo is not None:
                want = ('exit', 1) if mo == [] else {'inc_rex': bool(mo[0])}
        else:
            got = impl_detect_flags(args)
            want = None
            if mo is not None:
                if mo == []:
                    want = ('exit', 1)
                else:
                    m = mo[0]
                    want = {'report': 'records', 'ascii': bool(m[0]), 'in_place': False}
                    if m[1] != []:
                        want['type_checking'] = 'strict' if m[1][0] else 'sloppy'
                    if m[3]:
                        want['write_all'] = True
                    if m[4]:
                        want['per_constraint'] = True
                    if m[5]:
                        want['index'] = True
                    if m[6]:
                        want['boolean_ints'] = True
                    if m[7]:
                        want['interleave'] = True
                    if m[8] != []:
                        want['output_fields'] = dstrs(m[8][0])
        if want is not None:
            ctx.cov['traces_validated_against_impl'] += 1
            if got != want:
                ctx.mismatch('A:%s_flags' % cmd, args, repr(want), repr(got))
                # the argument list is itself the failing input: the library is called with other options than
                # the documented meaning of these flags (the proved flag table) gives
                ctx.fail({'layer': 'A', 'command': cmd, 'argv': args},
                         'tdda %s %s calls the library with %r; the documented flag meanings give %r'
                         % (cmd, ' '.join(args), got, want))
    ctx.extra['layerA_flag_combinations'] = len(cases)
    ctx.extra['layerA_exhaustive'] = True


def gen_file_frame(rng):
    """Numeric / date / bool columns (string columns are a recorded C01 finding under pandas 3)."""
    import numpy as np
    import pandas as pd
    n = rng.randint(1, 8)
    cols = {}
    for nm in rng.sample(['id', 'amount', 'when', 'ünï', 'flag', 'n2', 'resistance_\u2126', 'length_\u212b', 'cafe\u0301_count', 'prix\u2028unitaire', 'qt\u0085tot', 'vt\x0bcol'], rng.randint(1, 4)):
        k = rng.choice(['int', 'real', 'date', 'bool', 'int', 'real', 'dateobj'])
        if k == 'int':
            cols[nm] = [rng.randint(-5, 50) for _ in range(n)]
            if rng.random() < 0.3:
                cols[nm] = [None if rng.random() < 0.3 else float(x) for x in cols[nm]]
        elif k == 'real':
            if rng.random() < 0.5:
                cols[nm] = [rng.choice([0.5, 1.25, -3.0, 10.0, None]) for _ in range(n)]
            else:
                # values that need all 16-17 significant digits to be written exactly
                cols[nm] = [rng.choice([2 / 3, 4 / 3, 0.1 + 0.2, -1 / 3, 1e-7 / 3, 1e15 / 7, rng.random(),
                                        rng.uniform(-1000, 1000), None]) for _ in range(n)]
        elif k == 'bool':
            cols[nm] = [rng.random() < .5 for _ in range(n)]
        elif k == 'dateobj':
            # calendar dates as objects (what a parquet date32 column loads as)
            import datetime as _dt
            cols[nm] = [_dt.date(2020, rng.randint(1, 12), rng.randint(1, 28)) for _ in range(n)]
        else:
            cols[nm] = pd.to_datetime([rng.choice(['2020-01-02 00:00:00', '2021-03-04 05:06:07', '1999-12-31 23:59:59'])
                                       for _ in range(n)], format='%Y-%m-%d %H:%M:%S')
    return pd.DataFrame(cols)


def cli(args, cwd, stdin=None):
    # (importing tdda's console creates a scratch directory with tempfile.mkdtemp(): kept under the case's own directory,
    # which is removed afterwards, instead of littering the system's /tmp with one empty directory per invocation)
    scratch = os.path.join(cwd, '.scratch-tmp')
    os.makedirs(scratch, exist_ok=True)
    env = dict(os.environ, PYTHONPATH=lib.REPO, PYTHONHASHSEED='0', TDDA_VERIF='1', TMPDIR=scratch)
    for attempt in range(3):
        p = subprocess.run([lib.PY, '-m', 'tdda.constraints.console'] + args, cwd=cwd, env=env, input=stdin,
                           stdout=subprocess.PIPE, stderr=subprocess.PIPE, text=True, timeout=300)
        if p.returncode >= 0:
            break           # a negative status is death by signal (interpreter teardown abort under load): retry
    return p.returncode, p.stdout, p.stderr


def strip_meta(d):
    d = dict(d)
    d.pop('creation_metadata', None)
    return d


def layer_b_case(arg):
    idx, seed, work = arg
    import random
    import pandas as pd
    from tdda.constraints import discover_df, verify_df, detect_df
    from tdda.constraints.pd.constraints import load_df
    rng = random.Random(seed)
    d = os.path.join(work, 'b%d' % idx)
    os.makedirs(d)
    problems = []
    df = gen_file_frame(rng)
    fmt = rng.choice(['csv', 'parquet'])
    if fmt == 'csv' and rng.random() < 0.5:
        # tokens that pandas' default reader would turn into nulls but tdda's reader keeps
        df['tok'] = [rng.choice(['1', '2', 'NA', 'n/a', 'null', 'None', '3', 'NaN']) for _ in range(len(df))]
    data = os.path.join(d, 'data.' + fmt)
    if fmt == 'csv':
        df.to_csv(data, index=False)
    else:
        df.to_parquet(data)
    with contextlib.redirect_stderr(io.StringIO()), contextlib.redirect_stdout(io.StringIO()):
        ldf = load_df(data)
    rex = rng.random() < 0.3
    # ---- discover
    tdda = os.path.join(d, 'c.tdda')
    rc, out, err = cli(['discover'] + (['-r'] if rex else []) + [data, tdda], d)
    with contextlib.redirect_stderr(io.StringIO()), contextlib.redirect_stdout(io.StringIO()):
        lib_cs = discover_df(ldf.copy(), inc_rex=rex)
    if lib_cs is None and rc == 0 and not os.path.exists(tdda):
        shutil.rmtree(d, ignore_errors=True)
        return idx, fmt, problems        # nothing to discover (e.g. an all-null column): both agree
    if rc != 0 or not os.path.exists(tdda):
        problems.append('tdda discover exited %d without writing the constraints file: %s' % (rc, err[-200:]))
        return idx, fmt, problems
    try:
        cli_cs = json.load(open(tdda, encoding='utf-8'))
    except ValueError as e_:
        problems.append('tdda discover wrote a constraints file that is not valid JSON (%s); columns %r' % (str(e_)[:100], list(df.columns)))
        return idx, fmt, problems
    if strip_meta(cli_cs) != strip_meta(json.loads(lib_cs.to_json())):
        problems.append('discover: command line %r, library %r' % (strip_meta(cli_cs), strip_meta(json.loads(lib_cs.to_json()))))
    if fmt == 'csv':
        # the same data on standard input must give the same constraints
        tdda_in = os.path.join(d, 'c_stdin.tdda')
        rc, out, err = cli(['discover'] + (['-r'] if rex else []) + ['-', tdda_in], d,
                           stdin=open(data, encoding='utf-8').read())
        if rc != 0 or not os.path.exists(tdda_in):
            problems.append('tdda discover from standard input exited %d without writing constraints: %s' % (rc, err[-200:]))
        else:
            si = strip_meta(json.load(open(tdda_in, encoding='utf-8')))
            if si != strip_meta(cli_cs):
                problems.append('discover from standard input %r differs from discover on the file %r' % (si, strip_meta(cli_cs)))
    # ---- verify the file against its own constraints, and against perturbed data
    rc, out, err = cli(['verify', data, tdda], d)
    m = re.search(r'Constraints passing: (\d+)\s+Constraints failing: (\d+)', out.replace('\n', ' '))
    with contextlib.redirect_stderr(io.StringIO()), contextlib.redirect_stdout(io.StringIO()):
        v = verify_df(ldf.copy(), tdda)
    if not m or (int(m.group(1)), int(m.group(2))) != (v.passes, v.failures):
        problems.append('verify: command line says %r, library (%d, %d); rc=%d %s'
                        % (m.groups() if m else out[-200:], v.passes, v.failures, rc, err[-200:]))
    if v.failures != 0:
        problems.append('constraints discovered from the file do not verify against it: %d failures' % v.failures)
    # other data: shift numeric columns so that some constraints fail
    df2 = df.copy()
    for c in df2:
        if str(df2[c].dtype).startswith(('int', 'float')):
            df2[c] = df2[c] * rng.choice([2, -1, 3]) + rng.choice([0, 1, 100])
    data2 = os.path.join(d, 'other.' + fmt)
    if fmt == 'csv':
        df2.to_csv(data2, index=False)
    else:
        df2.to_parquet(data2)
    with contextlib.redirect_stderr(io.StringIO()), contextlib.redirect_stdout(io.StringIO()):
        ldf2 = load_df(data2)
    flags = rng.choice([[], ['-t', 'strict'], ['--epsilon', '0.5'], ['-f'], ['-a', '-7'],
                        ['-t', 'strict', '--epsilon', '0.5'], ['--epsilon', '0.5', '-t', 'strict']])
    kw = {}
    if '-t' in flags:
        kw['type_checking'] = 'strict'
    if '--epsilon' in flags:
        kw['epsilon'] = 0.5
    use_stdin = fmt == 'csv' and rng.random() < 0.3
    if use_stdin:
        rc, out, err = cli(['verify'] + flags + ['-', tdda], d, stdin=open(data2, encoding='utf-8').read())
    else:
        rc, out, err = cli(['verify'] + flags + [data2, tdda], d)
    m = re.search(r'Constraints passing: (\d+)\s+Constraints failing: (\d+)', out.replace('\n', ' '))
    with contextlib.redirect_stderr(io.StringIO()), contextlib.redirect_stdout(io.StringIO()):
        v2 = verify_df(ldf2.copy(), tdda, **kw)
    if not m or (int(m.group(1)), int(m.group(2))) != (v2.passes, v2.failures):
        problems.append('verify %s%s: command line says %r, library (%d, %d); rc=%d %s'
                        % (flags, ' via stdin' if use_stdin else '', m.groups() if m else out[-200:], v2.passes,
                           v2.failures, rc, err[-200:]))
    # ---- detect
    dflags = rng.choice([[], ['--write-all'], ['--no-per-constraint'], ['--index'], ['--int'], ['--no-output-fields'],
                         ['--write-all', '--per-constraint']])
    outp = os.path.join(d, 'det.csv')
    # the output goes to a file, or - documented - to standard output when the name is '-' or left out
    to_stdout = rng.choice([None, None, None, '-', ''])
    tail = [data2, tdda] + ([outp] if to_stdout is None else ['-'] if to_stdout == '-' else [])
    rc, out, err = cli(['detect'] + [f_ for f_ in flags if f_ not in ('-f', '-a', '-7')] + dflags + tail, d)
    if to_stdout is not None:
        if rc != 0:
            problems.append('detect %s to standard output ended with status %d: %s' % (dflags, rc, err[-300:]))
        with open(outp, 'w', encoding='utf-8') as f_:
            f_.write(out.rstrip('\n') + '\n' if out.strip() else '')      # (print() adds one more line end)
        if not out.strip():
            os.remove(outp)
        if os.path.exists(os.path.join(d, '-')):
            problems.append("detect to standard output left a file called '-' behind")
    dk = dict(kw)
    if '--write-all' in dflags:
        dk['write_all'] = True
    if '--no-per-constraint' not in dflags:
        dk['per_constraint'] = True
    if '--index' in dflags:
        dk['index'] = True
    if '--int' in dflags:
        dk['boolean_ints'] = True
    if '--no-output-fields' not in dflags:
        dk['output_fields'] = []
    libout = os.path.join(d, 'libdet.csv')
    with contextlib.redirect_stderr(io.StringIO()), contextlib.redirect_stdout(io.StringIO()):
        try:
            dv = detect_df(ldf2.copy(), tdda, outpath=libout, rownumber_is_index=False, in_place=False,
                           report='records', **dk)
            lib_err = None
        except Exception as e:
            lib_err = e
    if lib_err is None:
        a = open(outp, encoding='utf-8').read() if os.path.exists(outp) else None
        b = open(libout, encoding='utf-8').read() if os.path.exists(libout) else None
        if a != b:
            problems.append('detect %s: output file differs from the library\'s (cli %r, library %r)'
                            % (dflags, (a or '')[:200], (b or '')[:200]))
        if dv.failures == 0 and os.path.exists(outp):
            problems.append('detect: nothing failed but an output file was left behind')
        # with --write-all every record is written, in order, with its original fields: a field that has a value in the
        # data has a value in the file
        if a is not None and '--write-all' in dflags and '--no-output-fields' not in dflags:
            import csv as _csv
            rows_ = list(_csv.reader(io.StringIO(a)))
            if rows_ and len(rows_) - 1 == len(ldf2):
                for c_ in ldf2.columns:
                    if c_ in rows_[0]:
                        j_ = rows_[0].index(c_)
                        empties = sum(1 for r_ in rows_[1:] if r_[j_] == '')
                        nulls = int(ldf2[c_].isnull().sum())
                        if empties != nulls:
                            problems.append('detect %s: the output file has %d empty cells in field %r, the data has %d nulls there '
                                            '(values such as %r are lost)' % (dflags, empties, c_, nulls, ldf2[c_].dropna().iloc[0] if nulls < len(ldf2) else None))
    # ---- several command lines in ONE process (tdda.constraints.console.main_with_argv, as an embedding program or a test
    # suite drives them): each behaves as the same command line in a process of its own
    if idx % 3 == 0:
        sess = []
        vflag_sets = [['--epsilon', '0.5'], ['-t', 'strict'], [], ['-f']]
        dflag_sets = [['--write-all', '--index', '--int'], [], ['--no-output-fields'], ['--no-per-constraint'], []]
        for k_ in range(rng.randint(2, 4)):
            if rng.random() < 0.5:
                sess.append(['verify'] + rng.choice(vflag_sets) + [data2, tdda])
            else:
                sess.append(['detect'] + rng.choice(dflag_sets) + [data2, tdda, os.path.join(d, 'sess%d.csv' % k_)])
        if rng.random() < 0.5:
            sess.sort(key=lambda a_: -len(a_))           # the command lines with most options first
        driver = os.path.join(d, 'session.py')
        with open(driver, 'w') as f_:
            f_.write("import sys, json, io, contextlib\n"
                     "from tdda.constraints.console import main_with_argv\n"
                     "res = []\n"
                     "for argv in json.load(open(sys.argv[1])):\n"
                     "    buf = io.StringIO()\n"
                     "    try:\n"
                     "        with contextlib.redirect_stdout(buf):\n"
                     "            main_with_argv(['tdda'] + argv)\n"
                     "        rc = 0\n"
                     "    except SystemExit as e:\n"
                     "        rc = e.code\n"
                     "    res.append([rc if isinstance(rc, int) else (0 if rc is None else 1), buf.getvalue()])\n"
                     "json.dump(res, open(sys.argv[2], 'w'))\n")
        with open(os.path.join(d, 'session.json'), 'w') as f_:
            json.dump(sess, f_)
        os.makedirs(os.path.join(d, '.scratch-tmp'), exist_ok=True)
        env_ = dict(os.environ, PYTHONPATH=lib.REPO, PYTHONHASHSEED='0', TDDA_VERIF='1', TMPDIR=os.path.join(d, '.scratch-tmp'))
        for attempt_ in range(3):
            ps = subprocess.run([lib.PY, driver, os.path.join(d, 'session.json'), os.path.join(d, 'session.out')], cwd=d, env=env_,
                                stdout=subprocess.PIPE, stderr=subprocess.PIPE, text=True, timeout=600)
            if ps.returncode >= 0:
                break       # a negative status is death by signal (interpreter teardown abort under load, as in cli()): retry
            for f_ in os.listdir(d):
                if f_.startswith('sess') and f_.endswith('.csv'):
                    os.remove(os.path.join(d, f_))
        if ps.returncode != 0 or not os.path.exists(os.path.join(d, 'session.out')):
            problems.append('a session of command lines %r in one process ended with status %d: %s'
                            % (sess, ps.returncode, ps.stderr[-300:]))
        else:
            sres = json.load(open(os.path.join(d, 'session.out')))
            for k_, (argv_, (src, sout)) in enumerate(zip(sess, sres)):
                own = list(argv_)
                if argv_[0] == 'detect':
                    own[-1] = os.path.join(d, 'own%d.csv' % k_)
                orc, oout, oerr = cli(own, d)
                figures = lambda t_: re.findall(r'(?:Constraints|Records) (?:passing|failing): +(\d+)', t_)
                sfile = open(argv_[-1], encoding='utf-8').read() if argv_[0] == 'detect' and os.path.exists(argv_[-1]) else None
                ofile = open(own[-1], encoding='utf-8').read() if argv_[0] == 'detect' and os.path.exists(own[-1]) else None
                if figures(sout) != figures(oout) or sfile != ofile:
                    problems.append('command line %d of the session %r in one process: figures %r, output file %r; the same '
                                    'command line in a process of its own: figures %r, output file %r'
                                    % (k_, sess, figures(sout), (sfile or '')[:150] if sfile is not None else None,
                                       figures(oout), (ofile or '')[:150] if ofile is not None else None))
                    break
    # ---- constraints that were NOT discovered from this file (hand-written: types the data must be repaired to,
    # bounds, a field the data lacks): command line and library must still agree, for CSV and for parquet
    df3 = df.copy()
    df3['f01'] = [rng.choice([0, 1]) for _ in range(len(df3))]
    data3 = os.path.join(d, 'hand.' + fmt)
    if fmt == 'csv':
        df3.to_csv(data3, index=False)
    else:
        df3.to_parquet(data3)
    with contextlib.redirect_stderr(io.StringIO()), contextlib.redirect_stdout(io.StringIO()):
        ldf3 = load_df(data3)
    hand = {'fields': {'f01': {'type': rng.choice(['bool', 'string', 'real', 'int']), 'min': 0, 'max': rng.choice([0, 1])},
                       'absent': {'type': 'int'}}}
    for c in df:
        if str(df[c].dtype).startswith(('int', 'float')) and rng.random() < 0.6:
            hand['fields'][c] = {'type': rng.choice(['int', 'real', 'string', 'bool']), 'max_nulls': 0}
    htdda = os.path.join(d, 'hand.tdda')
    with open(htdda, 'w') as f:
        json.dump(hand, f)
    rc, out, err = cli(['verify', data3, htdda], d)
    m = re.search(r'Constraints passing: (\d+)\s+Constraints failing: (\d+)', out.replace('\n', ' '))
    with contextlib.redirect_stderr(io.StringIO()), contextlib.redirect_stdout(io.StringIO()):
        try:
            v3 = verify_df(ldf3.copy(), htdda)
        except Exception as e:
            v3 = None
    if v3 is not None and (not m or (int(m.group(1)), int(m.group(2))) != (v3.passes, v3.failures)):
        problems.append('verify with hand-written constraints %r on %s: command line says %r, library (%d, %d)'
                        % (hand, fmt, m.groups() if m else (out + err)[-200:], v3.passes, v3.failures))
    outp3 = os.path.join(d, 'hdet.csv')
    rc, out, err = cli(['detect', data3, htdda, outp3], d)
    libout3 = os.path.join(d, 'hlibdet.csv')
    with contextlib.redirect_stderr(io.StringIO()), contextlib.redirect_stdout(io.StringIO()):
        try:
            detect_df(ldf3.copy(), htdda, outpath=libout3, rownumber_is_index=False, in_place=False, report='records',
                      per_constraint=True, output_fields=[])
            ok3 = True
        except Exception:
            ok3 = False
    if ok3:
        a = open(outp3, encoding='utf-8').read() if os.path.exists(outp3) else None
        b = open(libout3, encoding='utf-8').read() if os.path.exists(libout3) else None
        if a != b:
            problems.append('detect with hand-written constraints %r on %s: output differs from the library\'s (cli %r, library %r)'
                            % (hand, fmt, (a or '')[:200], (b or '')[:200]))
    for f_ in (outp3, libout3):
        if os.path.exists(f_):
            os.remove(f_)
    # ---- error invocations leave no output and exit non-zero
    with open(os.path.join(d, 'broken.tdda'), 'w') as f:
        f.write('{"fields": {"a": ')
    if rng.random() < 0.5:
        # (a constraints file with the data file's own stem sits next to it - e.g. from an earlier discover: naming a
        # missing file must still be an error, not a silent switch to that one)
        shutil.copy(tdda, os.path.splitext(data2)[0] + '.tdda')
        shutil.copy(tdda, os.path.splitext(data)[0] + '.tdda')
    bad = rng.choice([['detect', data2, os.path.join(d, 'missing.tdda'), os.path.join(d, 'x.csv')],
                      ['verify', data2, os.path.join(d, 'missing.tdda')],
                      ['verify', data, os.path.join(d, 'no-such.tdda')],
                      ['detect', data2, os.path.join(d, 'missing.tdda'), os.path.join(d, 'x.parquet')],
                      ['detect', data2, os.path.join(d, 'broken.tdda'), os.path.join(d, 'x.csv')],
                      ['detect', os.path.join(d, 'missing.csv'), tdda, os.path.join(d, 'x.csv')],
                      ['verify', data, os.path.join(d, 'broken.tdda')],
                      ['verify', os.path.join(d, 'missing.csv'), tdda],
                      ['verify', data, os.path.join(d, 'missing.tdda')],
                      ['verify', '--no-such-flag', data, tdda],
                      ['detect', '--per-constraint', '--no-per-constraint', data2, tdda, os.path.join(d, 'x.csv')],
                      ['detect', '--output-fields', 'id', '--no-output-fields', data2, tdda, os.path.join(d, 'x.csv')],
                      ['discover', os.path.join(d, 'missing.csv'), os.path.join(d, 'x.tdda')]])
    before = set(os.listdir(d))
    rc, out, err = cli(bad, d)
    if rc == 0:
        problems.append('error invocation %r exited with status 0' % [os.path.basename(x) for x in bad])
    if set(os.listdir(d)) - before:
        problems.append('error invocation %r left %r behind' % ([os.path.basename(x) for x in bad],
                                                                sorted(set(os.listdir(d)) - before)))
    shutil.rmtree(d, ignore_errors=True)
    return idx, fmt, problems


def run(ctx):
    rng = ctx.rng
    layer_a(ctx)
    nB = 24 if ctx.quick else 600
    work = T.workdir()
    try:
        jobs = [(i, rng.randrange(10 ** 9), work) for i in range(nB)]
        with ProcessPoolExecutor(12) as ex:
            results = list(ex.map(layer_b_case, jobs))
        for idx, fmt, problems in results:
            ctx.count(('B', jobs[idx][1]), True)
            ctx.bump('B.' + fmt)
            for p in problems:
                ctx.fail({'layer': 'B', 'case_seed': jobs[idx][1], 'format': fmt}, p, finding=classify(p))
        ctx.sample({'layer': 'B', 'case_seed': jobs[0][1], 'problems': results[0][2]})
    finally:
        shutil.rmtree(work, ignore_errors=True)
    ctx.cov['rule'] = ('layer A: every combination of the verify flags and of the detect flags (x type_checking x '
                       'output-field lists), exhaustive; layer B: random numeric/date/bool tables written as CSV or '
                       'parquet, tdda discover / verify (incl. stdin) / detect with random flag sets compared with the '
                       'library on load_df(file); one error invocation per case')
    ctx.assumptions += ['file loading/saving (pandas, pyarrow) and argparse are not modelled; the Coq model covers the '
                        'flag -> keyword translation only, tied to flags.py by running the real functions']


def classify(p):
    return None


def replay(ctx, data):
    print(data.get('what'))
    return 0
