"""Shared by the constraints properties (C01 C02 C06 C07 C09): abstract columns, their pandas
realisations, the wire encoding for Constraints/Model.v and an independent statement of each
constraint's documented meaning."""
import datetime
import math
import re
from fractions import Fraction

import lib
from lib import dstr, dstrs, dopt

TWO1074 = 2 ** 1074
TYPE_CODE = {'bool': 0, 'int': 1, 'real': 2, 'string': 3, 'date': 4, 'other': 5}
CODE_TYPE = {v: k for k, v in TYPE_CODE.items()}
KINDS = ['type', 'min', 'min_length', 'max', 'max_length', 'sign', 'max_nulls', 'no_duplicates',
         'allowed_values', 'rex']             # STANDARD_FIELD_CONSTRAINTS order = verification order
KIND_TAG = {'type': 0, 'min': 1, 'max': 2, 'min_length': 3, 'max_length': 4, 'sign': 5, 'max_nulls': 6,
            'no_duplicates': 7, 'allowed_values': 8, 'rex': 9}
SIGNS = ['positive', 'non-negative', 'zero', 'non-positive', 'negative', 'null']
PREC = {'closed': 0, 'open': 1, 'fuzzy': 2}
RE_FLAGS = re.UNICODE | re.DOTALL
EPOCH = datetime.datetime(1970, 1, 1)

STRINGS = ['a', 'b', 'ab', 'abc', '', 'é', 'ß∂', '𝔘', 'x y', ' lead', 'trail ', '12', 'A', 'á', 'zz', "q'uote",
           'back\\slash', 'new\nline', 'tab\t', '1.5', 'NULL', 'nan', 'True', '0', 'longer string here',
           'line\u2028sep', 'para\u2029', 'nel\u0085x', 'two  spaces  ',
           # punctuation runs that vary between rows and include a backslash / a bracket
           'C:\\data', 'D:/data', 'a\\b', 'c]d', 'e[f', 'g\\]h']
INTS = [0, 1, -1, 2, 3, 7, 10, -10, 100, 255, 2 ** 31 - 1, -2 ** 31, 2 ** 53 + 1, -(2 ** 53) - 1, 2 ** 62, 5, 6,
        2 ** 53 + 3, -(2 ** 53) - 3, 2 ** 62 + 1, 2 ** 53 + 5]
REALS = [0.0, -0.0, 1.0, -1.0, 0.5, -0.5, 1.5, 2.0, 3.0, 1e-300, -1e-300, 1e300, 0.1, 0.01, 100.0, 99.0, 101.0,
         float('inf'), float('-inf'), 2.5, 1e-9, 123456.789, -7.25, 10.0]
# microsecond counts whose decimal fraction is not representable exactly, so that a conversion through float
# (0.000249 * 1e6 = 248.99999999999997) loses one when truncated
HARD_US = [u for u in list(range(1, 3000)) + [290000 + i for i in range(300)]
           if int(float('0.%06d' % u) * 1000000) != u][:40]
DATES = [datetime.datetime(2020, 1, 2), datetime.datetime(1999, 12, 31, 23, 59, 59),
         datetime.datetime(2020, 1, 2, 3, 4, 5, 678000), datetime.datetime(1970, 1, 1),
         datetime.datetime(2038, 1, 19, 3, 14, 8), datetime.datetime(1900, 3, 1), datetime.datetime(2020, 1, 3),
         datetime.datetime(2020, 1, 2, 3, 4, 5, 500000), datetime.datetime(2020, 1, 2, 3, 4, 5, 400000),
         # outside what nanoseconds can hold (kept out of the ns variant by normalise_column): sentinel and history
         datetime.datetime(9999, 12, 30), datetime.datetime(1600, 3, 1),
         # years below 1000 (the 0001-01-01 sentinel): four digits when written
         datetime.datetime(1, 1, 2), datetime.datetime(987, 6, 5, 4, 3, 2)] + \
        [datetime.datetime(2039, 5, 6, 7, 8, 9, u) for u in HARD_US[:6]] + \
        [datetime.datetime(1890, 5, 6, 7, 8, 9, u) for u in HARD_US[6:9]]


# ---------------------------------------------------------------- abstract columns

def gen_column(rng, t=None, n=None, small_pool=None):
    t = t or rng.choice(['bool', 'int', 'real', 'string', 'date', 'int', 'real', 'string'])
    n = rng.choice([0, 1, 2, 3, 4, 6, 9]) if n is None else n
    null_p = rng.choice([0, 0, 0.2, 0.5, 1.0])
    pool = {'bool': [True, False], 'int': INTS, 'real': REALS, 'string': STRINGS, 'date': DATES}[t]
    k = small_pool or rng.choice([1, 2, 3, len(pool)])
    sub = rng.sample(pool, min(k, len(pool)))
    if t == 'int' and rng.random() < 0.12:
        # integers that a double cannot represent: comparisons must not go through float
        sub = rng.sample([2 ** 53 + 1, 2 ** 53 + 3, 2 ** 53 + 5, 2 ** 62 + 1, 2 ** 63 - 4, -(2 ** 53) - 3, -(2 ** 62) - 1],
                         rng.choice([1, 2, 3]))
    elif t in ('int', 'real') and rng.random() < 0.4:
        # one-signed data, so that sign classes other than "mixed" occur
        sgn = rng.choice([1, -1])
        sub = [v for v in sub if v == 0 or (v > 0) == (sgn > 0)] or [0]
        if rng.random() < 0.3:
            sub = [v for v in sub if v != 0] or sub
    cells = [None if rng.random() < null_p else rng.choice(sub) for _ in range(n)]
    if t == 'real' and rng.random() < 0.3:
        cells = [None if c is None else float(int(c)) if math.isfinite(c) and abs(c) < 1e15 else c for c in cells]
    variants = {'bool': ['bool', 'object', 'boolean'], 'int': ['int64', 'Int64', 'int32', 'uint', 'int8'],
                'real': ['float64', 'float32', 'Float64'], 'string': ['object', 'category', 'object', 'category+'],
                'date': ['datetime64[ns]', 'datetime64[us]', 'datetime64[ms]', 'datetime64[s]', 'dateobj']}[t]
    variant = rng.choice(variants)
    col = {'type': t, 'cells': cells, 'variant': variant}
    return normalise_column(col)


def normalise_column(col):
    """Make the abstract cells exactly what the chosen pandas dtype can hold."""
    t, v, cells = col['type'], col['variant'], col['cells']
    has_null = any(c is None for c in cells)
    if t == 'bool':
        if has_null and v == 'bool':
            v = 'object'
    elif t == 'int':
        if has_null and v != 'Int64':
            v = 'Int64'
        if v == 'int32':
            cells = [None if c is None else max(-2 ** 31, min(2 ** 31 - 1, c)) for c in cells]
        elif v == 'int8':
            cells = [None if c is None else max(-128, min(127, c)) for c in cells]
        elif v == 'uint':
            cells = [None if c is None else abs(c) for c in cells]
    elif t == 'real':
        if v == 'float32':
            import numpy as np
            with np.errstate(over='ignore'):
                cells = [None if c is None else float(np.float32(c)) for c in cells]
    elif t == 'date':
        if v == 'datetime64[s]':
            cells = [None if c is None else c.replace(microsecond=0) for c in cells]
        elif v == 'datetime64[ms]':
            # (the column stores milliseconds: what is in the frame is the truncated value)
            cells = [None if c is None else c.replace(microsecond=c.microsecond // 1000 * 1000) for c in cells]
        elif v == 'dateobj':
            cells = [None if c is None else c.replace(hour=0, minute=0, second=0, microsecond=0) for c in cells]
        elif v == 'datetime64[ns]':
            cells = [None if c is None else (c if 1700 < c.year < 2262 else c.replace(year=1800 if c.year <= 1700 else 2200))
                     for c in cells]
    if not any(c is not None for c in cells) and ((t == 'bool' and v == 'object') or (t == 'date' and v == 'dateobj')):
        # an object column with no non-null value cannot be told from a string column (documented)
        t, v = 'string', 'object'
    return {'type': t, 'cells': cells, 'variant': v}


def to_series(col):
    import numpy as np
    import pandas as pd
    t, v, cells = col['type'], col['variant'], col['cells']
    if t == 'bool':
        if v == 'bool':
            return pd.Series(np.array(cells, dtype=bool))
        if v == 'boolean':
            return pd.Series(pd.array(cells, dtype='boolean'))
        return pd.Series(cells, dtype=object)
    if t == 'int':
        if v == 'Int64':
            return pd.Series(pd.array(cells, dtype='Int64'))
        dt = {'int64': 'int64', 'int32': 'int32', 'uint': 'uint64', 'int8': 'int8'}[v]
        return pd.Series(np.array(cells, dtype=dt))
    if t == 'real':
        if v == 'Float64':
            return pd.Series(pd.array([None if c is None else c for c in cells], dtype='Float64'))
        return pd.Series(np.array([float('nan') if c is None else c for c in cells],
                                  dtype='float32' if v == 'float32' else 'float64'))
    if t == 'string':
        s = pd.Series(cells, dtype=object)
        if v == 'category+':     # declared but unused categories (e.g. a filtered subset)
            used = sorted(set(c for c in cells if c is not None))
            return pd.Series(pd.Categorical(cells, categories=used + [x for x in ('zz unused', 'an-unused-long-category')
                                                                      if x not in used]))
        return s.astype('category') if v == 'category' else s
    if v == 'dateobj':
        return pd.Series([None if c is None else c.date() for c in cells], dtype=object)
    return pd.Series(pd.to_datetime(pd.Series(cells, dtype=object)).astype(v))


def frame_of(cols):
    import pandas as pd
    return pd.DataFrame({name: to_series(c) for name, c in cols.items()})


# ---------------------------------------------------------------- wire encoding

def enc_num(x):
    if isinstance(x, bool):
        return (0, TWO1074 if x else 0)
    if isinstance(x, int):
        return (0, x * TWO1074)
    if isinstance(x, float):
        if math.isinf(x):
            return (1,) if x > 0 else (2,)
        n, d = x.as_integer_ratio()
        assert TWO1074 % d == 0
        return (0, n * (TWO1074 // d))
    raise TypeError(x)


def micros(d):
    if isinstance(d, datetime.datetime):
        delta = d - EPOCH
    else:
        delta = datetime.datetime(d.year, d.month, d.day) - EPOCH
    return (delta.days * 86400 + delta.seconds) * 1000000 + delta.microseconds


def enc_value(v):
    if isinstance(v, str):
        return (3, v)
    if isinstance(v, (datetime.datetime, datetime.date)):
        return (4, micros(v))
    return enc_num(v)


def dec_value(w):
    tag = w[0]
    if tag == 0:
        return Fraction(w[1], TWO1074)
    if tag == 1:
        return float('inf')
    if tag == 2:
        return float('-inf')
    if tag == 3:
        return dstr(w[1])
    return ('date', w[1])


def enc_column(col):
    return (TYPE_CODE[col['type']], [[] if c is None else [enc_value(c)] for c in col['cells']])


def fuzz(b, eps, up):
    """The documented adjustment: a proportion eps of the bound, away from the data side."""
    if isinstance(b, (datetime.datetime, datetime.date, str)):
        return b
    if eps == 0:
        return b            # no tolerance: the bound itself, exactly (also for integers beyond 2**53)
    if up:
        return b * ((1 + eps) if b >= 0 else (1 - eps))
    return b * ((1 - eps) if b >= 0 else (1 + eps))


def enc_constraint(kind, spec, col, eps):
    """spec: python description {value:..., precision:...}; value None = null constraint."""
    tag = KIND_TAG[kind]
    v = spec['value']
    if v is None:
        return (tag, [])
    if kind == 'type':
        ts = v if isinstance(v, list) else [v]
        return (tag, [[TYPE_CODE.get(t, 5) for t in ts]])
    if kind in ('min', 'max'):
        p = spec.get('precision') or 'fuzzy'
        fz = fuzz(v, eps, kind == 'max')
        return (tag, [(enc_value(v), enc_value(fz), PREC[p])])
    if kind in ('min_length', 'max_length', 'max_nulls'):
        return (tag, [v])
    if kind == 'sign':
        return (tag, [SIGNS.index(v)])
    if kind == 'no_duplicates':
        return (tag, [bool(v)])
    if kind == 'allowed_values':
        return (tag, [list(v)])
    if kind == 'rex':
        oks = []
        if col is not None and col['type'] == 'string':
            seen = []
            for c in col['cells']:
                if c is not None and c not in seen:
                    seen.append(c)
            cps = [re.compile(r, RE_FLAGS) for r in v]
            oks = [any(re.match(cp, s) for cp in cps) for s in seen]
        return (tag, [oks])
    raise KeyError(kind)


def json_constraint(kind, spec):
    """The .tdda / dict form."""
    v = spec['value']
    if isinstance(v, (datetime.datetime, datetime.date)):
        v = str(v)
        if '.' in v and v.endswith('000'):
            # a hand-written bound gives the fraction of a second with the digits it needs: .678 not .678000
            v = v.rstrip('0')
    if kind in ('min', 'max') and spec.get('precision'):
        return {'value': v, 'precision': spec['precision']}
    return v


# ---------------------------------------------------------------- documented meaning (oracle)

def _num(x):
    if isinstance(x, float) and math.isinf(x):
        return x
    return Fraction(x) if not isinstance(x, Fraction) else x


def _cmp_key(v):
    if isinstance(v, (bool, int, float, Fraction)):
        return _num(v)
    if isinstance(v, datetime.datetime):
        return micros(v)
    if isinstance(v, datetime.date):
        return micros(v)
    return v


def coarse(v):
    if isinstance(v, (bool, int, float, Fraction)):
        return 'number'
    if isinstance(v, str):
        return 'string'
    return 'date'


def meaning(kind, spec, col, eps, strict):
    """True/False: is the constraint satisfied according to the documentation?"""
    if col is None:
        return False
    v = spec['value']
    if v is None:
        return True
    vals = [c for c in col['cells'] if c is not None]
    t = col['type']
    if kind == 'type':
        ts = v if isinstance(v, list) else [v]
        if t in ts:
            return True
        if strict:
            return False
        if t == 'real' and ('int' in ts or 'bool' in ts):
            # documented as c.dropna().astype(int) == c.dropna(): whole numbers that fit an int64
            return all(math.isfinite(x) and x == int(x) and -2 ** 63 <= x < 2 ** 63 for x in vals)
        if t == 'string' and 'bool' in ts:
            return not vals
        return False
    if kind in ('min', 'max'):
        if not vals:
            return True
        if coarse(vals[0]) != coarse(v):
            return False
        p = spec.get('precision') or 'fuzzy'
        if coarse(v) == 'date' and p == 'fuzzy':
            p = 'closed'        # no fuzz for dates; 'open' still means strictly beyond the bound
        b = _cmp_key(v)
        fb = _cmp_key(fuzz(v, eps, kind == 'max'))
        for x in vals:
            k = _cmp_key(x)
            if kind == 'min':
                ok = k >= b if p == 'closed' else k > b if p == 'open' else (k >= b or k >= fb)
            else:
                ok = k <= b if p == 'closed' else k < b if p == 'open' else (k <= b or k <= fb)
            if not ok:
                return False
        return True
    if kind in ('min_length', 'max_length'):
        if t != 'string':
            return False
        return all((len(x) >= v) if kind == 'min_length' else (len(x) <= v) for x in vals)
    if kind == 'sign':
        if not vals:
            return True
        if coarse(vals[0]) != 'number':
            return False
        ks = [_cmp_key(x) for x in vals]
        return {'positive': all(k > 0 for k in ks), 'non-negative': all(k >= 0 for k in ks),
                'zero': all(k == 0 for k in ks), 'non-positive': all(k <= 0 for k in ks),
                'negative': all(k < 0 for k in ks), 'null': False}[v]
    if kind == 'max_nulls':
        return len(col['cells']) - len(vals) <= v
    if kind == 'no_duplicates':
        if v is False:
            return True
        ks = [_cmp_key(x) for x in vals]
        return len(set(ks)) == len(ks)
    if kind == 'allowed_values':
        return all(x in v for x in vals)
    if kind == 'rex':
        if t != 'string':
            return False
        cps = [re.compile(r, RE_FLAGS) for r in v]
        return all(any(re.match(cp, s) for cp in cps) for s in vals)
    raise KeyError(kind)


# ---------------------------------------------------------------- constraint generation

def near(rng, x):
    """Values on, just inside and just outside a numeric boundary."""
    if isinstance(x, bool):
        return rng.choice([True, False, 0, 1, 2, -1, 0.5])
    if isinstance(x, int):
        return rng.choice([x, x + 1, x - 1, float(x) if abs(x) < 2 ** 53 else x, x * 2, -x,
                           x + 0.5 if abs(x) < 2 ** 52 else x, 0, int(x * 1.01), int(x * 0.99)])
    if isinstance(x, float):
        if math.isinf(x):
            return rng.choice([x, -x, 1e308, -1e308, 0])
        return rng.choice([x, math.nextafter(x, math.inf), math.nextafter(x, -math.inf), x * 1.01, x * 0.99,
                           x * 1.5, x * 0.5, -x, 0.0, 0, x + 1, x - 1, int(x) if abs(x) < 1e15 else x,
                           x / (1 + 0.01) if x else 0.0, x / (1 - 0.01) if x else 0.0])
    return x


def gen_constraints(rng, col, rich=True):
    """dict kind -> spec for one field, boundary-directed."""
    t = col['type']
    vals = [c for c in col['cells'] if c is not None]
    out = {}
    nk = rng.randint(1, 5)
    kinds = rng.sample(KINDS, nk)
    for kind in kinds:
        if rng.random() < 0.08:
            out[kind] = {'value': None}
            continue
        if kind == 'type':
            v = rng.choice([t, t, 'int', 'real', 'bool', 'string', 'date', ['int', 'real'], ['bool', 'string'],
                            [t, 'date'], ['int', 'string']])
            out[kind] = {'value': v}
        elif kind in ('min', 'max'):
            if t in ('bool', 'int', 'real'):
                base = (min(vals) if kind == 'min' else max(vals)) if vals else rng.choice(INTS + REALS)
                if rng.random() < 0.2:
                    base = rng.choice(vals) if vals else base
                b = near(rng, base)
                if isinstance(b, float) and math.isnan(b):
                    b = 0.0
            elif t == 'date':
                base = (min(vals) if kind == 'min' else max(vals)) if vals else rng.choice(DATES)
                b = base + datetime.timedelta(microseconds=rng.choice([0, 0, 1000, -1000, 86400000000, -1000000]))
            else:
                b = rng.choice(vals) if vals and rng.random() < 0.7 else rng.choice(STRINGS)
            out[kind] = {'value': b, 'precision': rng.choice([None, 'closed', 'open', 'fuzzy'])}
        elif kind in ('min_length', 'max_length'):
            ls = [len(x) for x in vals if isinstance(x, str)]
            base = (min(ls) if kind == 'min_length' else max(ls)) if ls else rng.choice([0, 0, 1, 2])
            out[kind] = {'value': max(0, base + rng.choice([0, 0, 1, -1, 2]))}
        elif kind == 'sign':
            out[kind] = {'value': rng.choice(SIGNS)}
        elif kind == 'max_nulls':
            nn = len(col['cells']) - len(vals)
            out[kind] = {'value': max(0, nn + rng.choice([0, 0, 1, -1]))}
        elif kind == 'no_duplicates':
            out[kind] = {'value': rng.choice([True, True, True, False])}
        elif kind == 'allowed_values':
            if t != 'string':
                continue
            u = sorted(set(vals))
            r = rng.random()
            if r < 0.4:
                av = u
            elif r < 0.6 and u:
                av = u[:-1]
            elif r < 0.8:
                av = u + ['extra']
            else:
                av = rng.sample(STRINGS, 3)
            out[kind] = {'value': av}
        elif kind == 'rex':
            # (expressions are used one by one: groups, back-references, inline flags and alternations of one
            # expression must not interact with those of another)
            out[kind] = {'value': rng.choice([[r'^[a-z]+$'], [r'^\d+$', r'^[a-z]*$'], [r'^.*$'], [r'^.+$'],
                                              [r'^a'], [r'^[A-Za-z ]+$', r'^$'], [r'^\S+$'],
                                              [r'^(\d+)$', r'^([a-z])\1$'], [r'^(x)?y$', r'^(a)(b)?\1*$', r'^(.)\1$'],
                                              [r'^a|b$', r'^zz$'], [r'^(?P<n>\d)\d$', r'^(?P<n>[a-z])(?P=n)$'], []])}
    if t == 'date' and ('min' in out or 'max' in out):
        out['type'] = {'value': 'date'}     # date bounds are only re-parsed when the type says date
    if t != 'date' and out.get('type', {}).get('value') == 'date' and \
            any(k in out and out[k]['value'] is not None for k in ('min', 'max')):
        del out['type']                     # type date with a non-date bound is not a well-formed set
    return out


def ordered(cons):
    return [k for k in KINDS if k in cons]
