"""C04 - text comparison passes exactly when texts agree modulo declared exclusions.
Layer A: FilesComparison.check_strings vs RefTest/CheckStrings.v on lists of lines.
Layer B: assertStringCorrect / assertTextFileCorrect / assertTextFilesCorrect with real
files vs the model's file entry points.  Oracle: the property restated (textcmp.spec_verdict)."""
import os
import shutil

import lib
from props import textcmp as T

FINDING_RECURSION = 'c04-pattern-recursion'


def classify_diverge(A, E, o):
    """RecursionError belongs to the recorded finding only when a pattern can match without
    consuming: it matches the empty string, or it is end-anchored and carries a group."""
    import re
    for p in o['ignore_patterns'] or []:
        cp = re.compile(p)
        if cp.match('') is not None or (p.endswith('$') and cp.groups > 0):
            return FINDING_RECURSION
    return None


def make_reftest(tmp):
    from tdda.referencetest.referencetest import ReferenceTest

    class Failed(Exception):
        pass

    def assert_fn(cond, msg=None):
        if not cond:
            raise Failed(msg)
    rt = ReferenceTest(assert_fn)
    rt.verbose = False
    rt.tmp_dir = tmp
    rt.files.tmp_dir = tmp
    rt.files.verbose = False
    return rt, Failed


def join_text(rng, lines):
    if not lines:
        return rng.choice(['', '', '\n'])
    out = []
    for i, l in enumerate(lines):
        out.append(l)
        if i < len(lines) - 1:
            out.append(rng.choice(T.SEPS_IN_TEXT[:10]))
    if rng.random() < 0.7:
        out.append(rng.choice(['\n', '\n', '\r\n', '\n\n']))
    return ''.join(out)


def run(ctx):
    rng = ctx.rng
    from tdda.referencetest.referencetest import ReferenceTest
    ReferenceTest.regenerate.clear()
    tmp = T.workdir()
    try:
        fc = T.new_comparison(tmp)
        # ------------------------------------------------ layer A
        nA = 2500 if ctx.quick else 60000
        cases = []
        for i in range(nA):
            A, E = T.gen_pair(rng)
            o = T.gen_opts(rng)
            if i % 7 == 0:
                A = E[:]                   # identical content under every option set
            apath = rng.random() < 0.3
            cases.append((A, E, o, apath))
            if o['ignore_patterns'] and rng.random() < 0.4:
                # the same texts again on the same comparison object, now without the patterns (and then with them
                # once more): a verdict must not depend on what was compared before
                cases.append((A, E, dict(o, ignore_patterns=[]), apath))
                if rng.random() < 0.5:
                    cases.append((A, E, o, apath))
        # several patterns: an earlier one that matches both lines without excusing the difference, a later one that does
        # excuse it (and the other way round), inside otherwise equal texts
        FAMS = [('name=alice id 7 end', 'name=bob id 7 end', [r'id \d+', r'^name=.* end$']),
                ('run abc 12', 'run xyz 12', [r'\d+', r'run [a-z]+ \d+']),
                ('x 1 y 22', 'x 3 y 22', [r'22', r'x \d']),
                ('ab12 tail', 'ab34 tail', [r'tail', r'[a-z]+\d+', r'zz'])]
        for la_, le_, pats in FAMS:
            for rev in (False, True):
                for _ in range(3):
                    pre = [T.gen_line(rng) for _ in range(rng.randint(0, 2))]
                    post = [T.gen_line(rng) for _ in range(rng.randint(0, 2))]
                    o = dict(T.gen_opts(rng), ignore_patterns=list(reversed(pats)) if rev else list(pats), remove_lines=[],
                             ignore_substrings=[], preprocess=None)
                    cases.append((pre + [la_] + post, pre + [le_] + post, o, False))
        # corpus: hand-written boundary cases
        corpus = [
            (['a 12', 'b'], ['a 34', 'b'], dict(T.gen_opts(rng), ignore_patterns=[r'\d+'], preprocess=None), False),
            (['x', 'y', 'z'], ['y', 'x', 'z'], dict(T.gen_opts(rng), max_permutation_cases=2, remove_lines=[],
                                                   ignore_patterns=[], ignore_substrings=[], preprocess=None), False),
            (['x', 'y', 'q'], ['y', 'x', 'z'], dict(T.gen_opts(rng), max_permutation_cases=2, remove_lines=[],
                                                   ignore_patterns=[], ignore_substrings=[], preprocess=None), False),
            (['a', ''], ['a'], T.gen_opts(rng), False),
            ([], [], T.gen_opts(rng), False),
        ]
        cases = corpus + cases
        payloads = []
        for A, E, o, apath in cases:
            pp = T.PREPROCESS[o.get('preprocess')]
            A2, E2 = (pp(A), pp(E)) if pp else (A, E)
            payloads.append(T.model_payload(0, o, A2, E2, apath))
        mouts = ctx.model.call_many(4, payloads) if ctx.model_ok else [None] * len(cases)
        for (A, E, o, apath), mo in zip(cases, mouts):
            impl = T.impl_check_strings(fc, A, E, o, apath='actual.txt' if apath else None)
            pp = T.PREPROCESS[o.get('preprocess')]
            A2, E2 = (pp(A), pp(E)) if pp else (A, E)
            nontriv = A != E
            ctx.count(('A', tuple(A), tuple(E), repr(sorted(o.items(), key=str))), nontriv)
            ctx.bump('A.' + impl['verdict'].split(' ')[0])
            ctx.bump('A.opts.%d' % sum(1 for k in ('lstrip', 'rstrip', 'ignore_substrings', 'ignore_patterns',
                                                   'remove_lines', 'max_permutation_cases', 'preprocess')
                                       if o[k]))
            if mo is not None and mo != '!stack':
                m = T.decode_result(mo)
                ctx.cov['traces_validated_against_impl'] += 1
                if m['verdict'] != impl['verdict'] or (m['recon'] != impl['recon'] and impl['verdict'] != 'diverge'):
                    ctx.mismatch('A:check_strings', {'actual': A, 'expected': E, 'opts': o, 'apath': apath},
                                 {'verdict': m['verdict'], 'recon': m['recon']},
                                 {'verdict': impl['verdict'], 'recon': impl['recon']})
            # the property itself
            try:
                want, _ = T.spec_verdict(A2, E2, o)
            except (T.Diverges, RecursionError):
                want = 'diverge'
            if want == 'diverge' or impl['verdict'] == 'diverge':
                if impl['verdict'] == 'diverge':
                    ctx.fail({'layer': 'A', 'actual': A, 'expected': E, 'opts': o},
                             'comparison raised RecursionError instead of giving a verdict '
                             '(patterns %r)' % (o['ignore_patterns'],),
                             finding=classify_diverge(A2, E2, o))
                continue
            if want != impl['verdict']:
                ctx.fail({'layer': 'A', 'actual': A, 'expected': E, 'opts': o},
                         'check_strings says %s, property requires %s (actual %r, reference %r, options %r)'
                         % (impl['verdict'], want, A, E, o))
        ctx.sample({'layer': 'A', 'actual': cases[6][0], 'expected': cases[6][1], 'opts': cases[6][2]})
        # ------------------------------------------------ layer B: entry points with files
        nB = 500 if ctx.quick else 8000
        rt, Failed = make_reftest(tmp)
        bcases = []
        for i in range(nB):
            A, E = T.gen_pair(rng)
            if i % 6 == 0:
                A = E[:]
            o = T.gen_opts(rng)
            sa, se = join_text(rng, A), join_text(rng, E)
            if i % 6 == 0 and rng.random() < 0.5:
                sa = se
            mode = rng.choice([1, 1, 2, 3])
            bcases.append((mode, sa, se, o))
        payloads = []
        for mode, sa, se, o in bcases:
            pp = T.PREPROCESS[o.get('preprocess')]
            if pp:   # an arbitrary function: applied here, the model then starts from the line lists
                payloads.append(T.model_payload(0, o, pp(sa.splitlines()), pp(se.splitlines()), mode != 1))
            else:
                payloads.append(T.model_payload(1 if mode == 1 else 2, o, sa, se, mode != 1))
        mouts = ctx.model.call_many(4, payloads) if ctx.model_ok else [None] * len(bcases)
        for idx, ((mode, sa, se, o), mo) in enumerate(zip(bcases, mouts)):
            # a few reference / actual paths are used again and again with new contents (as after regeneration or an
            # edit of the reference): a verdict is about what the files hold now
            # (reference names with other extensions: only a .pdf reference is read as ISO-8859-1, everything else as UTF-8)
            ext_ = ['txt', 'txt', 'ps', 'eps', 'log', 'tex', 'svg', 'dat'][idx % 8]
            refp = os.path.join(tmp, 'ref%d.%s' % ((idx % 3 if idx % 2 else idx), ext_))
            actp = os.path.join(tmp, 'act%d.txt' % (idx % 3 if idx % 4 == 1 else idx))
            with open(refp, 'w', encoding='utf-8', newline='') as f:
                f.write(se)
            kw = dict(lstrip=o['lstrip'], rstrip=o['rstrip'], ignore_substrings=o['ignore_substrings'] or None,
                      ignore_patterns=o['ignore_patterns'] or None, remove_lines=o['remove_lines'] or None,
                      preprocess=T.PREPROCESS[o.get('preprocess')],
                      max_permutation_cases=o['max_permutation_cases'])
            try:
                if mode == 1:
                    rt.assertStringCorrect(sa, refp, **kw)
                else:
                    with open(actp, 'w', encoding='utf-8', newline='') as f:
                        f.write(sa)
                    # (same modification time as the reference, as after a checkout or an archive extraction:
                    # the comparison is of contents)
                    st_ = os.stat(refp)
                    os.utime(actp, ns=(st_.st_atime_ns, st_.st_mtime_ns))
                    if mode == 2:
                        rt.assertTextFileCorrect(actp, refp, **kw)
                    else:
                        rt.assertTextFilesCorrect([actp], [refp], **kw)
                got = 'pass'
            except Failed as e:
                got = 'fail'
                if mode == 3 and 'Error comparing' in str(e) and 'RecursionError' in str(e):
                    got = 'diverge'
            except RecursionError:
                got = 'diverge'
            for p in (refp, actp):
                if os.path.exists(p):
                    os.remove(p)
            for f in os.listdir(tmp):
                os.remove(os.path.join(tmp, f))
            ctx.count(('B', mode, sa, se, repr(sorted(o.items(), key=str))), sa != se)
            ctx.bump('B.mode%d.%s' % (mode, got))
            if mo is not None and mo != '!stack':
                m = T.decode_result(mo)
                ctx.cov['traces_validated_against_impl'] += 1
                if m['verdict'] != got:
                    ctx.mismatch('B:entry%d' % mode, {'actual': sa, 'reference': se, 'opts': o, 'mode': mode},
                                 m['verdict'], got)
            # property oracle on the line sequences (text-mode reading translates \r\n, \r)
            la = sa.splitlines()
            le = se.splitlines()
            pp = T.PREPROCESS[o.get('preprocess')]
            if pp:
                la, le = pp(la), pp(le)
            try:
                want, _ = T.spec_verdict(la, le, o)
            except (T.Diverges, RecursionError):
                want = 'diverge'
            if got == 'diverge':
                ctx.fail({'layer': 'B', 'mode': mode, 'actual': sa, 'reference': se, 'opts': o},
                         'assertion raised RecursionError (patterns %r)' % (o['ignore_patterns'],),
                         finding=classify_diverge(la, le, o))
            elif want != 'diverge' and want != got:
                ctx.fail({'layer': 'B', 'mode': mode, 'actual': sa, 'reference': se, 'opts': o},
                         'entry point %d says %s, property requires %s' % (mode, got, want))
        ctx.sample({'layer': 'B', 'mode': bcases[1][0], 'actual': bcases[1][1], 'reference': bcases[1][2],
                    'opts': bcases[1][3]})
        # ------------------------------------------------ files that differ only in bytes the encoding cannot decode
        # (whatever else happens, two such files must not be reported as the same text)
        for it in range(24 if ctx.quick else 300):
            body = [rng.choice(T.WORDS).encode('utf-8') for _ in range(rng.randint(1, 4))]
            k = rng.randrange(len(body))
            x, y = rng.choice([(b'caf\xe9', b'caf\xe8'), (b'\xff', b'\xfe'), (b'a\xe9b', b'a\xfcb'), (b'\x80\x80', b'\x81\x80')])
            ba = b'\n'.join(body[:k] + [x] + body[k:]) + b'\n'
            be = b'\n'.join(body[:k] + [y] + body[k:]) + b'\n'
            enc = rng.choice([None, 'utf-8', 'ascii'])
            refp, actp = os.path.join(tmp, 'bref.txt'), os.path.join(tmp, 'bact.txt')
            with open(refp, 'wb') as f:
                f.write(be)
            with open(actp, 'wb') as f:
                f.write(ba)
            case = {'layer': 'bytes', 'actual_bytes': repr(ba), 'reference_bytes': repr(be), 'encoding': enc}
            ctx.count(repr(case), True)
            ctx.bump('bytes.undecodable')
            kw = {} if enc is None else {'encoding': enc}
            try:
                if rng.random() < 0.5:
                    rt.assertTextFileCorrect(actp, refp, **kw)
                else:
                    rt.assertTextFilesCorrect([actp], [refp], **kw)
                ctx.fail(case, 'two files that differ (in bytes the encoding cannot decode) are reported as the same text')
            except Exception:
                pass
            for f in os.listdir(tmp):
                os.remove(os.path.join(tmp, f))
        # ------------------------------------------------ splitlines / strip tables vs CPython
        strs = [''.join(rng.choice(['a', ' ', '\n', '\r', '\r\n', '\x0b', '\x0c', '\x1c', '\x1d', '\x1e',
                                    '\x85', ' ', ' ', '\xa0', '　', 'é', '\t', '\x1f'])
                        for _ in range(rng.randint(0, 8))) for _ in range(400 if ctx.quick else 5000)]
        souts = ctx.model.call_many(5, strs) if ctx.model_ok else []
        for s, mo in zip(strs, souts):
            want = [s.splitlines(), s.replace('\r\n', '\n').replace('\r', '\n'), s.strip(), s.lstrip(), s.rstrip()]
            got = [lib.dstrs(mo[0])] + [lib.dstr(x) for x in mo[1:]]
            ctx.count(('S', s), len(s) > 1)
            ctx.cov['traces_validated_against_impl'] += 1
            if want != got:
                ctx.mismatch('S:splitlines/strip', s, got, want)
    finally:
        shutil.rmtree(tmp, ignore_errors=True)
    ctx.cov['rule'] = ('layer A: (actual, reference) line lists built by mutating a common text (replace/insert/'
                       'delete/swap/near-miss edits; every 7th pair identical) x random subsets of the seven options '
                       '(12 pattern sets incl. pathological ones); layer B: the same through assertStringCorrect/'
                       'assertTextFileCorrect/assertTextFilesCorrect with real files, mixed line terminators and '
                       'final-newline variants; non-trivial = texts differ; distinct by full case')
    ctx.assumptions += ['re.match on the user ignore_patterns is an oracle table computed with CPython re for every '
                        'string the recursion reaches; str.isspace / splitlines boundaries are tables regenerated '
                        'from the running interpreter']


def replay(ctx, data):
    case = data.get('case', {})
    print(data.get('what'))
    if case.get('layer') == 'A':
        tmp = T.workdir()
        try:
            fc = T.new_comparison(tmp)
            r = T.impl_check_strings(fc, case['actual'], case['expected'], case['opts'])
            print('observed', r['verdict'])
        finally:
            shutil.rmtree(tmp, ignore_errors=True)
    return 0
