"""Shared by the rexpy properties (C03 C13 C14 C18): example generation, option sets, Size settings
that force the sampled path, the independent statement of what must be matched."""
import re
from collections import Counter

RE_FLAGS = re.UNICODE | re.DOTALL

ALPHA = list('abcxyzABCXYZ019 -_.,:/@#$^\\[](){}|*+?!~"\'=%&<>;`') + \
    ['\t', '\n', '\x0b', '\xa0', ' ', 'é', 'ß', 'Ω', 'я', '中', 'Ⅷ', '٣', '७', '²', '½', '\x00', '\x7f', '☃', '𝔘', 'ǅ']
WORDS = ['ab', 'abc', 'AB', 'Abc', '12', '123', '2020-01-02', 'a1', 'A1B2', 'x_y', 'a.b', 'a-b', 'foo@bar.com',
         'http://x.y/z', '(555) 123-4567', 'é1', '٣٤', 'Ω', '', ' ', 'a b', 'a  b', '$5', 'US$5', '^-', '-^', '^', '-',
         '[x]', 'x{2}', 'a|b', 'a\\b', '²', 'x²', '10$', '10$ off', 'ǅx', 'AB-12', 'CD-345', 'ef-6']


def gen_long(rng):
    """more than MAX_GROUPS runs of character classes: rexpy falls back to ^.{m,n}$ (needs DOTALL for newlines).
    The length is fixed per unit and a line break goes to one of three fixed places: two long strings of one unit with
    breaks at arbitrary different places make rexpy return a chain of some forty optional fragments (x?.?x?.? ...), on
    which CPython's backtracking matcher - inside rexpy's own check as well as here - needs 2**40 steps for a string
    that does not match (seen once in a thorough run: nothing to do with any property, the run just never ends)."""
    units = ['a-', 'a1 ', 'x.', 'A b', 'é-']
    unit = rng.choice(units)
    n = 50 + units.index(unit)
    s = unit * n
    if rng.random() < 0.6:
        k = rng.choice([0, len(unit) * (n // 2), len(s)])
        s = s[:k] + rng.choice(['\n', '\r\n', '\x85', '\u2028']) + s[k:]
    return s


def gen_string(rng):
    r = rng.random()
    if r < 0.03:
        return gen_long(rng)
    if r < 0.45:
        return rng.choice(WORDS)
    if r < 0.75:
        # structured: same shape with varying parts
        shape = rng.choice(['%s-%s', '%s%s', '%s %s', '%s.%s', '%s:%s:%s', '(%s)%s', '%s@%s', '%s^%s', '%s-^%s'])
        parts = tuple(rng.choice(['ab', 'c', 'XY', '12', '3', 'é', '٣', 'a1', '', '²']) for _ in range(shape.count('%s')))
        return shape % parts
    return ''.join(rng.choice(ALPHA) for _ in range(rng.randint(0, 6)))


def gen_bulk(rng):
    """one shape shared by more strings than max_strings_in_group (10): a fragment constant over the first
    9..13 strings and different in a few later ones (the per-fragment string cap is a boundary of the code)"""
    k = rng.choice([9, 10, 11, 12, 13])
    pre, alt = rng.choice([('ID', 'XY'), ('ab', 'cd'), ('7', '8'), ('x_', 'y_')])
    sep = rng.choice(['-', '.', ':', ''])
    out = ['%s%s%04d' % (pre, sep, 1000 + 37 * i) for i in range(k)]
    out += ['%s%s%04d' % (alt, sep, 42 + i) for i in range(rng.choice([0, 1, 2]))]
    return out


def gen_examples(rng, nmax=8):
    n = rng.choice([1, 1, 2, 3, 4, 5, nmax, nmax])
    base = [gen_string(rng) for _ in range(n)]
    if rng.random() < 0.08:
        bulk = gen_bulk(rng)
        out = base[:2] + bulk
        if rng.random() < 0.5:
            rng.shuffle(out)
        return out
    if rng.random() < 0.12:
        # families for variable-length fragments: one alphanumeric run that extends another character by character
        # (longer first or shorter first), optional trailing digit runs whose length varies by more than
        # MAX_VRLE_RANGE, digits mixed with digit-like characters, and whitespace-only strings (for strip)
        fam = rng.choice([['https', 'http'], ['http', 'https', 'httpsx'], ['id7x', 'id7'], ['ab12', 'ab1', 'ab'],
                          ['ab', 'cd1234', 'ef12', 'gh123456'], ['x', 'y12345', 'z1'], ['q7777777', 'r', 's77'],
                          ['1\u00b23', '4\u00b3', '\u00b25'], ['12\u00b2', '\u00b23', '4\u00b25\u00b3'],
                          ['abc', 'de', '   ', 'fgh'], ['\t', 'xy', ' \u00a0 '], ['  ', 'a1'],
                          # a string and the same string with one trailing line feed ('$' matches before it, so the
                          # second is counted for the first's expression and its own expression has frequency 0)
                          ['abc', 'abc\n'], ['10', '22', '10\n', '37'], ['x1', 'x1\n', 'y2'], ['a-b\n', 'a-b', 'c-d'],
                          # spellings that Unicode normalisation would change (a letter plus a combining mark, the
                          # Angstrom and ohm signs): the examples are the strings as given
                          ['e\u0301', 'o\u0308'], ['cafe\u0301', 'nai\u0308ve'], ['\u212b'], ['5\u2126', '7\u2126'],
                          ['x\u0301y', 'z\u0308w', 'abc'],
                          # optional tails longer than MAX_VRLE_RANGE in two places, each example lacking one of them
                          ['ab1234-cd', 'ab-cd1234', 'ef-gh5678', 'xy9999-zz'], ['k77777-m', 'k-m88888', 'p-q'],
                          # one class repeated more than 255 times (lengths within 2 of each other)
                          ['a' * 256 + '-1', 'b' * 257 + '-2', 'c' * 256 + '-3'], ['0f' * 128, 'e1' * 128, 'ab' * 129]])
        fam = list(fam)
        if rng.random() < 0.5:
            fam.reverse()
        base = fam + base[:rng.choice([0, 1, 2])]
        return [s for s in base for _ in range(rng.choice([1, 1, 2]))]
    if rng.random() < 0.4:
        # a family: shared structure so that alignment / merging has something to do
        fam = rng.choice([['abc.com', 'def.com', '.com'], ['$5', '$7', 'US$5', 'CA$9'], ['ab-1', 'cd-2', '-x'],
                          ['a1', 'b22', 'c333'], ['x=1', 'yy=22', 'z=3;'], ['AB-12', 'CD-345', 'ef-6'],
                          ['☃é', '☃☃é', '☃éé'], ['x{2}', 'y{2}', 'z{2}'], ['10$', '10$ off', 'US$', 'US$5']])
        base += fam
    out = []
    for s in base:
        out += [s] * rng.choice([1, 1, 1, 2, 3])
    rng.shuffle(out)
    return out


def gen_drift(rng):
    """Examples of one coarse shape whose refinement depends on which of them are in the working set (hex letters /
    any letters, one or two punctuation marks), with other shapes around: under sampling a string matched on one
    pass can stop being matched on the next, so the extend loop has to run until nothing new fails."""
    upper = rng.random() < 0.5
    # narrow (letters of one case that are also hex letters), widening (hex digits of the other kind) and
    # outsiders (same case, not hex): narrow + outsiders share a letter class that narrow + widening do not
    narrow = ['CA', 'AB', 'F', 'DE', 'B', 'FA'] if upper else ['ca', 'ab', 'f', 'de', 'b', 'fa']
    widening = ['c', '3', 'b7', 'e', '9', '0f'] if upper else ['C', '3', 'B7', 'E', '9', '0F']
    outsiders = ['US', 'ZQ', 'G', 'XY', 'K'] if upper else ['us', 'zq', 'g', 'xy', 'k']
    hexish = narrow + narrow + widening
    anyish = outsiders
    punc = ['$', '^', '-', '-^', '$-', '^$']
    fam = [rng.choice(hexish) + rng.choice(punc) + str(rng.randrange(10)) for _ in range(rng.choice([3, 4, 5]))]
    fam += [rng.choice(anyish) + rng.choice(punc) + str(rng.randrange(10)) for _ in range(rng.choice([1, 2]))]
    noise = rng.sample(['', '$5', 'Qab', '-', 'a1 a1 a1 ', 'A1B2', '$7', '(a1)+', 'x', '10.5', 'ab cd', '#'], rng.choice([4, 6, 8]))
    out = fam + noise + [rng.choice(fam + noise) for _ in range(rng.choice([0, 2, 4]))]
    rng.shuffle(out)
    size = dict(do_all=rng.choice([2, 3]), do_all_exceptions=rng.choice([1, 2]), n_per_length=64,
                max_sampled_attempts=rng.choice([1, 2, 3]))
    return out, size


def gen_opts(rng):
    o = {}
    if rng.random() < 0.3:
        o['tag'] = True
    if rng.random() < 0.25:
        o['strip'] = True
    if rng.random() < 0.25:
        o['remove_empties'] = True
    if rng.random() < 0.25:
        o['extra_letters'] = rng.choice(['_', '.', '-', '_-', '_.-', '.-'])
    if rng.random() < 0.35:
        o['variableLengthFrags'] = True
    if rng.random() < 0.2:
        o['full_escape'] = True
    o['dialect'] = rng.choice(['portable', 'perl', 'grep', 'portable'])
    if rng.random() < 0.08:
        o['verbose'] = rng.choice([1, 2, 3])          # progress output (to stdout) switched on
    return o


def gen_size(rng):
    """None (defaults) or a Size that forces the sampled / extend path on small inputs."""
    if rng.random() < 0.6:
        return None
    sz = dict(do_all=rng.choice([1, 2, 3, 5]), do_all_exceptions=rng.choice([1, 2, 3, 0]),
              n_per_length=rng.choice([1, 2, 64]), max_sampled_attempts=rng.choice([1, 2, 3]))
    if rng.random() < 0.15:
        sz['use_sampling'] = False       # with explicit sizes this switches nothing off: samples are still drawn (and seeded)
    return sz


def make_size(spec):
    from tdda.rexpy.rexpy import Size
    return None if spec is None else Size(**spec)


def originals_kept(examples, opts):
    """the examples as given (not stripped) that no explicit option discards"""
    out = []
    items = examples.items() if isinstance(examples, dict) else [(s, 1) for s in examples]
    for s, n in items:
        if s is None or n == 0:
            continue
        t = s.strip() if opts.get('strip') else s
        if opts.get('remove_empties') and len(t) == 0:
            continue
        if s not in out:
            out.append(s)
    return out


def cleaned(examples, opts):
    """Counter of the examples an explicit option does not discard (first-occurrence order)."""
    c = Counter()
    items = examples.items() if isinstance(examples, dict) else [(s, 1) for s in examples]
    for s, n in items:
        if s is None or n == 0:
            continue
        t = s.strip() if opts.get('strip') else s
        if opts.get('remove_empties') and len(t) == 0:
            continue
        c[t] += n
    return c


def matches(rex, s):
    """matches IN FULL (see unmatched)"""
    return re.fullmatch(re.compile(rex, RE_FLAGS), s) is not None


def unmatched(rexes, strings):
    """matched IN FULL: '$' also matches just before a final line feed, so re.match('^abc$', 'abc\\n') succeeds
    without matching the whole string - fullmatch is what the property asks for"""
    cps = [re.compile(r, RE_FLAGS) for r in rexes]
    return [s for s in strings if not any(re.fullmatch(cp, s) for cp in cps)]


# classes of the recorded C03 findings (DESIGN 7 C03)
def finding_class(s, opts):
    """Why an unmatched example may belong to a recorded finding, else None."""
    if opts.get('dialect', 'portable') in ('portable', 'grep') and any(re.match(r'\d', ch) and not ('0' <= ch <= '9') for ch in s):
        return 'c03-portable-digits'
    return None
