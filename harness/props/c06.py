"""C06 - detection flags exactly the violating records and agrees with verification.
detect_df on generated (frame, constraint set) pairs: per-constraint flag columns, n_failures,
passing/failing counts, output frame/file contents, in-place behaviour, stale output files - against
Constraints/Detect.v and a per-record statement of each constraint's meaning."""
import contextlib
import io
import json
import math
import os
import shutil

import lib
from props import cons as C
from props import textcmp as T
from props.c02 import gen_case, field_order, describe

F_REPAIR = 'c06-repair-mutates-input'
SUFFIX = {'max_nulls': 'nonnull', 'no_duplicates': 'nodups', 'allowed_values': 'values'}   # CONSTRAINT_SUFFIX_MAP


def cell_violates(kind, spec, col, x, eps):
    """Does this record's value violate the constraint (None = null flag / not applicable)?"""
    v = spec['value']
    t = col['type']
    if kind == 'type':
        return True
    if kind == 'max_nulls':
        return x is None
    # a constraint that cannot apply to a field of this type flags every record, null ones included (the reading
    # adopted for "every record for a type failure": DESIGN section 7, C06)
    if kind in ('min_length', 'max_length', 'rex') and t != 'string':
        return True
    if kind == 'sign' and t in ('string', 'date'):
        return True
    if kind in ('min', 'max'):
        nn = [y for y in col['cells'] if y is not None]
        if nn and C.coarse(nn[0]) != C.coarse(v):
            return True             # a bound of another kind than the field's values: every record
    if x is None:
        return None
    if kind in ('min', 'max'):
        one = dict(col, cells=[x])
        return not C.meaning(kind, spec, one, eps, False)
    if kind in ('min_length', 'max_length'):
        if t != 'string':
            return True
        return not ((len(x) >= v) if kind == 'min_length' else (len(x) <= v))
    if kind == 'sign':
        if v == 'null':
            return True             # (x is not None here)
        return not C.meaning(kind, spec, dict(col, cells=[x]), eps, False)
    if kind == 'no_duplicates':
        k = C._cmp_key(x)
        return sum(1 for y in col['cells'] if y is not None and C._cmp_key(y) == k) > 1
    if kind == 'allowed_values':
        return x not in v
    if kind == 'rex':
        if t != 'string':
            return True
        import re
        return not any(re.match(re.compile(r, C.RE_FLAGS), x) for r in v)
    raise KeyError(kind)


def run(ctx):
    rng = ctx.rng
    import numpy as np
    import pandas as pd
    from tdda.constraints import detect_df, verify_df
    n = 500 if ctx.quick else 15000
    work = T.workdir()
    try:
        cases = []
        while len(cases) < n:
            case = gen_case(rng)
            # constraints on a field the frame does not have: kept for half the cases, outside the model's fields
            # (they fail verification, so detection must report them too, and leave an output file)
            ghost = case['cons'].pop('ghost', None)
            case['ghost'] = ghost if ghost and rng.random() < 0.5 else None
            if not case['cols'] or not any(case['cons'].values()):
                continue
            if not list(case['cols'].values())[0]['cells']:
                if rng.random() < 0.8:
                    continue
            # the model's domain (see C02) and well-defined pandas comparisons
            bad = False
            for nm, cs in case['cons'].items():
                col = case['cols'][nm]
                if col['variant'].startswith('category') and any(k in cs for k in ('min', 'max', 'sign')):
                    bad = True
                if col['type'] == 'real' and not case['strict'] and 'type' in cs and \
                        any(x is not None and math.isinf(x) for x in col['cells']):
                    bad = True
                for k in ('min', 'max'):
                    if k in cs and cs[k]['value'] is not None and col['type'] == 'date' and \
                            C.coarse(cs[k]['value']) != 'date':
                        bad = True      # a non-date bound on a field declared as date is not a loadable constraint set
            for nm, col in case['cols'].items():
                if col['variant'] == 'float32':
                    # NumPy compares a float32 column with the bound converted to float32 (weak scalar promotion);
                    # bounds not representable in float32 are outside the generated domain
                    col['variant'] = 'float64'
                if col['type'] == 'int' and any(x is not None and abs(x) > 2 ** 53 for x in col['cells']):
                    bad = True      # int64 beyond 2^53 is compared after conversion to float64 in the vector path
                if col['variant'] == 'dateobj' and any(k in case['cons'].get(nm, {}) for k in ('min', 'max')):
                    bad = True      # date objects cannot be compared element-wise with a datetime bound
            if bad:
                continue
            cases.append(case)
        payloads = []
        for case in cases:
            eps = 0.0 if case['eps'] is None else case['eps']
            fields = []
            for nm in field_order(case):
                cs = case['cons'][nm]
                col = case['cols'][nm]
                fields.append((C.enc_column(col), [C.enc_constraint(k, cs[k], col, eps) for k in C.ordered(cs)]))
            nrows = len(list(case['cols'].values())[0]['cells'])
            payloads.append((case['strict'], fields, nrows))
        mouts = ctx.model.call_many(11, payloads) if ctx.model_ok else [None] * n
        for ci, (case, mo) in enumerate(zip(cases, mouts)):
            eps = 0.0 if case['eps'] is None else case['eps']
            df = C.frame_of(case['cols'])
            nrows = len(df)
            d = {'fields': {nm: {k: C.json_constraint(k, s) for k, s in cs.items()}
                            for nm, cs in case['cons'].items() if cs}}
            if case.get('ghost'):
                d['fields']['ghost'] = {k: C.json_constraint(k, s_) for k, s_ in case['ghost'].items()}
                ctx.bump('constraints_on_missing_field')
            tc = 'strict' if case['strict'] else 'sloppy'
            opts = dict(per_constraint=True, output_fields=[], write_all=rng.random() < 0.5,
                        index=rng.random() < 0.3, in_place=rng.random() < 0.25)
            if rng.random() < 0.3:
                opts['interleave'] = True
            fmt = rng.choice([None, None, 'csv', 'parquet'])
            outpath = os.path.join(work, 'out%d.%s' % (ci, fmt)) if fmt else None
            stale = fmt is not None and rng.random() < 0.5
            if stale:
                with open(outpath, 'w') as f:
                    f.write('stale,file\n1,2\n')
            desc = dict(describe(case), options={k: v for k, v in opts.items()}, outfile=fmt, stale=stale)
            if case.get('ghost'):
                desc['constraints_on_missing_field'] = repr(d['fields']['ghost'])
            ctx.count(repr(desc), nrows > 0)
            ctx.bump('out.%s%s' % (fmt, '.stale' if stale else ''))
            for k_, v_ in opts.items():
                ctx.bump('opt.%s=%s' % (k_, v_))
            # row labels: the default 0..n-1, other unique labels (a filtered frame), or repeated labels
            # (pd.concat without ignore_index); records are records whatever they are called
            labels = list(range(nrows))
            lab = rng.random()
            if lab < 0.15 and nrows:
                labels = rng.sample(range(3 * nrows + 3), nrows)
            elif lab < 0.3 and nrows > 1:
                labels = [rng.randrange(max(1, nrows // 2)) for _ in range(nrows)]
            stepped = False
            if 0.3 <= lab < 0.42 and nrows > 1:
                # every second / third record of a larger frame (big[::2]): a RangeIndex that starts at 0 with a step
                step = rng.choice([2, 3])
                labels = list(range(0, step * nrows, step))
                stepped = True
            if labels != list(range(nrows)):
                df.index = pd.RangeIndex(0, labels[-1] + 1, labels[1] - labels[0]) if stepped else labels
                ctx.bump('labels.stepped_range' if stepped else 'labels.unique' if len(set(labels)) == nrows else 'labels.repeated')
            rownum = rng.random() < 0.4
            if rownum:
                opts['rownumber_is_index'] = False
                if rng.random() < 0.7:
                    opts['index'] = True
            desc['row_labels'] = labels if labels != list(range(nrows)) else 'default'
            desc['options'] = dict(opts)
            work_df = df.copy()
            before = df.copy()
            err = io.StringIO()
            import copy as _copy
            d_pristine = _copy.deepcopy(d)
            try:
                with contextlib.redirect_stderr(err), contextlib.redirect_stdout(err):
                    v = detect_df(work_df, d, epsilon=case['eps'], type_checking=tc, repair=False,
                                  outpath=outpath, **opts)
                    vv = verify_df(df.copy(), d, epsilon=case['eps'], type_checking=tc, repair=False)
            except Exception as e:
                ctx.fail(desc, 'detect_df raised %s: %s' % (type(e).__name__, str(e)[:300]),
                         finding=classify_exc(case, e))
                continue
            # ---- the same in-memory constraint set used again for a second batch (numeric fields shifted by a half):
            # the verdicts are those of a pristine copy of the set - nothing of the first batch sticks to it
            if ci % 3 == 0:
                try:
                    df2 = df.copy()
                    for c_ in df2.columns:
                        if str(df2[c_].dtype) in ('float64', 'float32', 'Float64'):
                            df2[c_] = df2[c_] + 0.5
                    with contextlib.redirect_stderr(err), contextlib.redirect_stdout(err):
                        u1 = verify_df(df2.copy(), d, epsilon=case['eps'], type_checking=tc, repair=False)
                        u2 = verify_df(df2.copy(), _copy.deepcopy(d_pristine), epsilon=case['eps'], type_checking=tc, repair=False)
                    nb_ = lambda x: None if x is None else bool(x)
                    r1 = {nm: {k: nb_(fr[k]) for k in C.KINDS if k in fr} for nm, fr in u1.fields.items()}
                    r2 = {nm: {k: nb_(fr[k]) for k in C.KINDS if k in fr} for nm, fr in u2.fields.items()}
                    ctx.bump('second_batch')
                    if r1 != r2:
                        ctx.fail(dict(desc, second_batch='numeric fields + 0.5'),
                                 'a second batch checked with the constraint set already used for the first gives %r; with a '
                                 'pristine copy of the set %r (the set is now %r)' % (r1, r2, d.get('fields')))
                except Exception:
                    ctx.bump('second_batch.raised')
            # ---- verdicts identical to plain verification
            nb = lambda x: None if x is None else bool(x)
            dv = {nm: {k: nb(fr[k]) for k in C.KINDS if k in fr} for nm, fr in v.fields.items()}
            pv = {nm: {k: nb(fr[k]) for k in C.KINDS if k in fr} for nm, fr in vv.fields.items()}
            if dv != pv or (v.passes, v.failures) != (vv.passes, vv.failures):
                ctx.fail(desc, 'detection verdicts %r differ from verification verdicts %r' % (dv, pv))
            # ---- expected flags from the per-record meaning
            want_cols = {}
            for nm in field_order(case):
                col = case['cols'][nm]
                for k in C.ordered(case['cons'][nm]):
                    if dv.get(nm, {}).get(k) is False:
                        spec = case['cons'][nm][k]
                        # (a constraint that cannot apply to a field of this type flags every record)
                        want_cols['%s_%s_ok' % (nm, SUFFIX.get(k, k))] = [cell_violates(k, spec, col, x, eps) for x in col['cells']]
            det = v.detected()
            nfail_want = [sum(1 for c in want_cols.values() if c[r] is True) for r in range(nrows)]
            failing_want = sum(1 for x in nfail_want if x > 0)
            if v.failures == 0:
                if det is not None:
                    ctx.fail(desc, 'no constraint failed but detected() is not None')
                if outpath and os.path.exists(outpath):
                    ctx.fail(desc, 'no constraint failed but the output file exists afterwards (stale=%r)' % stale)
            else:
                if det is None:
                    ctx.fail(desc, 'constraints failed but detected() is None')
                else:
                    if (v.detection.n_passing_records + v.detection.n_failing_records != nrows or
                            v.detection.n_failing_records != failing_want):
                        ctx.fail(desc, 'passing/failing records %r/%r, rows %d, records with a violated constraint %d'
                                 % (v.detection.n_passing_records, v.detection.n_failing_records, nrows, failing_want))
                    rows = list(range(nrows)) if opts['write_all'] else [r for r in range(nrows) if nfail_want[r] > 0]
                    if len(set(det.columns)) != len(det.columns):
                        ctx.fail(desc, 'the output frame has repeated columns: %r' % list(det.columns))
                        continue
                    if opts.get('interleave'):
                        # each original field is followed by its own flag columns
                        names_ = [c_ for c_ in det.columns if c_ not in ('Index', 'RowNumber')]
                        owner, bad_order = None, []
                        for c_ in names_:
                            if c_ in case['cols']:
                                owner = c_
                            elif c_.endswith('_ok') and c_ in want_cols:
                                if owner is None or not c_.startswith(owner + '_') or \
                                        any(o != owner and len(o) > len(owner) and c_.startswith(o + '_') for o in case['cols']):
                                    bad_order.append((c_, owner))
                        if bad_order:
                            ctx.fail(desc, 'interleaved output: flag columns not after their own field: %r in %r' % (bad_order, names_))
                    # the records are identified by their labels: as the frame's index, or (when an index column was
                    # asked for and written) in that column
                    got_labels = list(det.index)
                    for cname in ('Index', 'RowNumber'):
                        if opts['index'] and cname in det:
                            got_labels = [x if cname == 'Index' else labels[int(x) - 1] for x in det[cname]]
                    if got_labels != [labels[r] for r in rows]:
                        ctx.fail(desc, 'output frame holds the records labelled %r, expected %r (positions %r, write_all=%r)'
                                 % (got_labels[:20], [labels[r] for r in rows][:20], rows[:20], opts['write_all']))
                    else:
                        got_nf = [int(x) for x in det['n_failures']]
                        if got_nf != [nfail_want[r] for r in rows]:
                            ctx.fail(desc, 'n_failures %r, number of false flags per record %r'
                                     % (got_nf[:20], [nfail_want[r] for r in rows][:20]))
                        for name, wc in want_cols.items():
                            if name not in det:
                                ctx.fail(desc, 'no flag column %s in the output (columns %r)' % (name, list(det)))
                                continue
                            got = [False if pd.isnull(x) else (not bool(x)) for x in det[name]]
                            if got != [bool(wc[r]) for r in rows]:
                                ctx.fail(desc, 'flag column %s marks violations %r, the records that violate are %r'
                                         % (name, got[:20], [wc[r] for r in rows][:20]))
                        extra = [c_ for c_ in det if c_.endswith('_ok') and c_ not in want_cols]
                        if extra:
                            ctx.fail(desc, 'flag columns %r for constraints that did not fail' % extra)
                        # output_fields=[] : the original columns come first, unchanged
                        for nm in case['cols']:
                            if nm not in det:
                                ctx.fail(desc, 'original field %r missing from the output' % nm)
                    if outpath:
                        if not os.path.exists(outpath):
                            ctx.fail(desc, 'constraints failed but no output file was written')
                        else:
                            try:
                                od = pd.read_csv(outpath) if fmt == 'csv' else pd.read_parquet(outpath)
                                # the flag columns of the FILE: false exactly on the records that violate the constraint
                                # (in a parquet file flags are booleans or null, never text)
                                bad_flags = []
                                if len(od) == len(rows):
                                    for cn_, wc_ in want_cols.items():
                                        if cn_ not in od:
                                            continue
                                        for pos_, r_ in enumerate(rows):
                                            cell_ = od[cn_].iloc[pos_]
                                            isnull_ = cell_ is None or (isinstance(cell_, float) and cell_ != cell_) or cell_ is pd.NA
                                            if fmt == 'parquet' and not isnull_ and not isinstance(cell_, (bool, np.bool_)):
                                                bad_flags.append('%s[%d] is %r (not a boolean)' % (cn_, pos_, cell_))
                                            elif wc_[r_] is True and (isnull_ or str(cell_).lower() != 'false'):
                                                bad_flags.append('%s[%d] is %r, the record violates the constraint' % (cn_, pos_, cell_))
                                if bad_flags:
                                    ctx.fail(desc, 'output file flags: %s' % '; '.join(bad_flags[:4]))
                                if len(od) != len(rows):
                                    ctx.fail(desc, 'output file holds %d records, expected %d' % (len(od), len(rows)))
                                elif 'n_failures' in od and [int(x) for x in od['n_failures']] != \
                                        [nfail_want[r] for r in rows]:
                                    ctx.fail(desc, 'output file n_failures %r, expected %r'
                                             % (list(od['n_failures'])[:20], [nfail_want[r] for r in rows][:20]))
                                elif opts['index'] and 'RowNumber' in od and \
                                        [int(x) for x in od['RowNumber']] != [r + 1 for r in rows]:
                                    ctx.fail(desc, 'output file RowNumber column says %r, the records written are rows %r'
                                             % ([int(x) for x in od['RowNumber']][:20], [r + 1 for r in rows][:20]))
                                elif opts['index'] and 'Index' in od and \
                                        [str(x) for x in od['Index']] != [str(labels[r]) for r in rows]:
                                    ctx.fail(desc, 'output file Index column says %r, the records written are labelled %r'
                                             % (list(od['Index'])[:20], [labels[r] for r in rows][:20]))
                                elif opts['index'] and fmt == 'csv' and not ('Index' in od or 'RowNumber' in od):
                                    ctx.fail(desc, 'an index column was requested but the output file has columns %r' % list(od)[:8])
                            except Exception as e:
                                ctx.fail(desc, 'output file unreadable: %s' % str(e)[:200])
            # ---- the same detection with the default reporting options and a CSV output file: the returned frame
            # still holds exactly the failing records under their own labels, and no column it was not asked for
            if v.failures > 0 and rng.random() < 0.4:
                p2 = os.path.join(work, 'plain%d.csv' % ci)
                try:
                    with contextlib.redirect_stderr(io.StringIO()), contextlib.redirect_stdout(io.StringIO()):
                        v2 = detect_df(df.copy(), d, epsilon=case['eps'], type_checking=tc, repair=False, outpath=p2,
                                       index=rng.random() < 0.5)
                    det2 = v2.detected()
                    rows2 = [r for r in range(nrows) if nfail_want[r] > 0]
                    ctx.bump('plain_options_run')
                    if det2 is None or list(det2.index) != [labels[r] for r in rows2]:
                        ctx.fail(desc, 'with default options and a CSV output file the returned frame holds the records labelled %r, '
                                 'expected %r' % (None if det2 is None else list(det2.index)[:20], [labels[r] for r in rows2][:20]))
                    elif [c_ for c_ in det2 if c_ in ('Index', 'RowNumber') and c_ not in case['cols']]:
                        ctx.fail(desc, 'with default options the returned frame has columns %r' % list(det2)[:8])
                except Exception as e:
                    ctx.fail(desc, 'detect_df with default options raised %s: %s' % (type(e).__name__, str(e)[:200]),
                             finding=classify_exc(case, e))
                if os.path.exists(p2):
                    os.remove(p2)
            # ---- input unchanged unless in place
            if not opts['in_place']:
                if list(work_df.columns) != list(before.columns) or not work_df.equals(before):
                    ctx.fail(desc, 'input frame changed although in_place was not requested')
            else:
                if not work_df[list(before.columns)].equals(before):
                    ctx.fail(desc, 'in-place detection changed the original columns')
                if v.failures > 0 and 'n_failures' not in work_df:
                    ctx.fail(desc, 'in-place detection did not add n_failures')
            # ---- model
            if mo is not None and mo != '!stack':
                ctx.cov['traces_validated_against_impl'] += 1
                m_cols = [[False if f == [] else (not bool(f[0])) for f in col] for col in mo[0]]
                i_cols = list(want_cols.values())
                m_nf, m_failing, m_passing = list(mo[1]), mo[2], mo[3]
                if v.failures > 0 and det is not None:
                    det_all = None
                    if opts['write_all']:
                        det_all = {c_: [False if pd.isnull(x) else (not bool(x)) for x in det[c_]]
                                   for c_ in det if c_.endswith('_ok')}
                    ok = (m_failing, m_passing) == (int(v.detection.n_failing_records),
                                                    int(v.detection.n_passing_records))
                    if det_all is not None:
                        ok = ok and sorted(map(repr, m_cols)) == sorted(map(repr, det_all.values())) and \
                            m_nf == [int(x) for x in det['n_failures']]
                    if not ok:
                        ctx.mismatch('detect', desc, {'cols': m_cols, 'nf': m_nf, 'failing': m_failing},
                                     {'cols': det_all, 'failing': int(v.detection.n_failing_records),
                                      'passing': int(v.detection.n_passing_records)})
                elif v.failures == 0 and m_cols:
                    ctx.mismatch('detect', desc, {'cols': m_cols}, 'no failures')
            if outpath and os.path.exists(outpath):
                os.remove(outpath)
            if ci == 1:
                ctx.sample(desc)
        # ---- default repair=True must not alter the caller's frame either (recorded finding if it does)
        for _ in range(30 if ctx.quick else 400):
            col = C.gen_column(rng, t='int', n=4)
            if any(c is None for c in col['cells']):
                continue
            col = C.normalise_column(dict(col, cells=[c % 2 for c in col['cells']], variant='int64'))
            df = C.frame_of({'x': col})
            keep = df.copy()
            with contextlib.redirect_stderr(io.StringIO()), contextlib.redirect_stdout(io.StringIO()):
                try:
                    detect_df(df, {'fields': {'x': {'type': 'bool', 'max': 0}}})
                except Exception:
                    continue
            ctx.count(('repair', repr(col['cells'])), True)
            if not (df.dtypes.equals(keep.dtypes) and df.equals(keep)):
                ctx.fail({'frame': repr(col), 'constraints': "{'x': {'type': 'bool', 'max': 0}}", 'repair': True},
                         'detect_df with the default repair=True changed the caller\'s column dtype %s -> %s '
                         'although in_place was not requested' % (keep.dtypes['x'], df.dtypes['x']),
                         finding=F_REPAIR)
        # ---- one constraints FILE revised between runs (the same path, new content): every detection applies the
        # constraints the file holds now - verdicts, records and output file as for the same constraints given as a dict
        for it in range(12 if ctx.quick else 200):
            n_ = rng.randint(4, 8)
            df = pd.DataFrame({'id': list(range(n_)), 'amount': [rng.choice([5, 20, 75, 120]) for _ in range(n_)]})
            tpath = os.path.join(work, 'revised%d.tdda' % (it % 2))
            outp = os.path.join(work, 'revised-out%d.csv' % it)
            revisions = [{'fields': {'amount': {'type': 'int', 'max': rng.choice([10, 50, 100, 500])}}} for _ in range(rng.randint(2, 3))]
            for rev_no, cd in enumerate(revisions):
                with open(tpath, 'w') as f_:
                    json.dump(cd, f_)
                case = {'scenario': 'constraints file revised between runs', 'revision': rev_no, 'constraints': cd,
                        'earlier_revisions': revisions[:rev_no], 'amount': list(df['amount'])}
                ctx.count(repr(case) + str(it), True)
                ctx.bump('revised_constraints_file')
                try:
                    with contextlib.redirect_stderr(io.StringIO()), contextlib.redirect_stdout(io.StringIO()):
                        vp_ = detect_df(df.copy(), tpath, outpath=outp, output_fields=[], per_constraint=True)
                        vd_ = detect_df(df.copy(), json.loads(json.dumps(cd)), output_fields=[], per_constraint=True)
                except Exception as e:
                    ctx.fail(case, 'detect_df raised %s: %s' % (type(e).__name__, str(e)[:200]))
                    break
                want_rows = [i_ for i_, a_ in enumerate(df['amount']) if a_ > cd['fields']['amount']['max']]
                got_rows = [] if vp_.detected() is None else list(vp_.detected().index)
                if (vp_.failures, got_rows) != (vd_.failures, want_rows) or os.path.exists(outp) != bool(want_rows):
                    ctx.fail(case, 'with the file as it is now: %d failing constraint(s), records %r, output file %s; the same '
                             'constraints as a dictionary: %d, records %r' % (vp_.failures, got_rows,
                             'written' if os.path.exists(outp) else 'absent', vd_.failures, want_rows))
                    break
                if os.path.exists(outp):
                    os.remove(outp)
    finally:
        shutil.rmtree(work, ignore_errors=True)
    ctx.cov['rule'] = ('(frame, constraint set) pairs as in C02 (no missing fields) x {write_all, index, in_place} x '
                       '{no file, CSV, parquet} x {output path absent, stale file present}; per_constraint flags '
                       'requested so that every record flag is observable; non-trivial = frame has rows')
    ctx.assumptions += ['pandas vector comparisons are not modelled; the harness states per record what violates',
                        'bounds whose coarse type differs from the column are outside the generated domain']


def classify_exc(case, e):
    return None


def replay(ctx, data):
    print(data.get('what'))
    return 0
