"""C16 - CSVW-described CSV loads with declared types and values.
Layer A: csvw_date_format_to_md_date_format vs Serial/DateFmt.v (exact strings).
Layer B (oracle): write typed tables + CSVW metadata, load with csv2pandas, compare
names / dtypes / values / nulls; date columns over composed CSVW formats."""
import datetime as dt
import itertools
import datetime
import json
import os
import shutil
import tempfile

import lib
from lib import dstr

TOK = {'d': '%d', 'dd': '%d', 'M': '%m', 'MM': '%m', 'yy': '%y', 'yyyy': '%Y', 'HH': '%H',
       'mm': '%M', 'ss': '%S', 'S': '%f', 'SS': '%f', 'SSS': '%f'}
SEPS = ['-', '/', '.', ':', ' ', 'T']


def impl_translate(fmt):
    from tdda.serial.csvw import csvw_date_format_to_md_date_format as tr
    return tr(fmt)


def csvw_format_instant(toks, seps, t):
    """Independent CSVW (UAX35) formatter of the documented fields."""
    out = []
    for i, tk in enumerate(toks):
        if i:
            out.append(seps[i - 1])
        if tk == 'd':
            out.append(str(t.day))
        elif tk == 'dd':
            out.append('%02d' % t.day)
        elif tk == 'M':
            out.append(str(t.month))
        elif tk == 'MM':
            out.append('%02d' % t.month)
        elif tk == 'yy':
            out.append('%02d' % (t.year % 100))
        elif tk == 'yyyy':
            out.append('%04d' % t.year)
        elif tk == 'HH':
            out.append('%02d' % t.hour)
        elif tk == 'mm':
            out.append('%02d' % t.minute)
        elif tk == 'ss':
            out.append('%02d' % t.second)
        else:  # S, SS, SSS : fractional second digits
            n = len(tk)
            out.append(('%06d' % t.microsecond)[:n])
    return ''.join(out)


def truncate_instant(toks, t):
    """The instant a pattern can express."""
    kw = dict(year=t.year, month=t.month, day=t.day, hour=0, minute=0, second=0, microsecond=0)
    if 'HH' in toks:
        kw['hour'] = t.hour
    if 'mm' in toks:
        kw['minute'] = t.minute
    if 'ss' in toks:
        kw['second'] = t.second
    for s in ('S', 'SS', 'SSS'):
        if s in toks:
            n = len(s)
            kw['microsecond'] = int(('%06d' % t.microsecond)[:n].ljust(6, '0'))
    return dt.datetime(**kw)


def gen_pattern(rng):
    """A date or date-time pattern naming day, month, year once each (any order) and
    optionally a time part; separators from the documented set."""
    d = rng.choice(['d', 'dd'])
    m = rng.choice(['M', 'MM'])
    y = rng.choice(['yy', 'yyyy'])
    date = [d, m, y]
    rng.shuffle(date)
    toks = list(date)
    if rng.random() < 0.6:
        tm = ['HH', 'mm']
        if rng.random() < 0.8:
            tm.append('ss')
            if rng.random() < 0.5:
                tm.append(rng.choice(['S', 'SS', 'SSS']))
        if rng.random() < 0.15:
            toks = tm + toks
        else:
            toks = toks + tm
    seps = []
    for i in range(len(toks) - 1):
        a, b = toks[i], toks[i + 1]
        if b in ('S', 'SS', 'SSS'):
            seps.append('.')
        elif a in ('HH', 'mm') and b in ('mm', 'ss'):
            seps.append(rng.choice([':', ':', ':', '.', '-']))
        elif (a in date) != (b in date):
            seps.append(rng.choice([' ', 'T', ' ']))
        else:
            seps.append(rng.choice(['-', '/', '.', '-', ' ']))
    return toks, seps


def gen_instant(rng, toks):
    if 'yy' in toks:
        year = rng.choice([1969, 1999, 2000, 2024, 2068, rng.randint(1970, 2068)])
    else:
        # (incl. years that do not fit a nanosecond timestamp: the usual open-ended sentinel, and history)
        year = rng.choice([1900, 1970, 2000, 2024, 2262 - 1, 1700, rng.randint(1700, 2200), 9999, 1066, 2400])
    month = rng.choice([1, 2, 9, 10, 12, rng.randint(1, 12)])
    day = rng.choice([1, 9, 10, 28, rng.randint(1, 28)])
    return dt.datetime(year, month, day, rng.choice([0, 9, 12, 23]), rng.choice([0, 5, 59]),
                       rng.choice([0, 7, 59]), rng.choice([0, 100000, 120000, 123000, 999000, 5000]))


STRS = ['x', 'hello world', 'é', 'ß∂', 'a"b', "it's", ' lead', 'NULLISH', '0', 'true', '雪', 'c1\x80ctl', 'apc\x9fx', 'ÿþ',
        'Unit #5 Riverside', '#start', 'a#b', '// note', '-- x', '%done', "'single'", 'back\\slash', '1e5', '0x10']


def gen_table(rng):
    delim = rng.choice([',', ',', '|', '\t', ';', '\u00a7', '\u00a6'])   # incl. non-ASCII (section sign, broken bar)
    enc = rng.choice(['utf-8', 'utf-8', 'latin-1', 'utf-16', 'iso-8859-1', 'latin1', 'ISO-8859-1'])
    header = rng.random() < 0.7
    hdr_style = rng.choice(['header', 'headerRowCount'])
    ncols = rng.randint(1, 6)
    nrows = rng.choice([1, 2, 3, 4, 5, 6, 0])          # incl. a header-only file (the declared types still hold)
    kinds = [rng.choice(['boolean', 'integer', 'number', 'string', 'date', 'datetime'])
             for _ in range(ncols)]
    cols, data, texts = [], [], []
    titled = rng.random() < 0.3
    whole_numbers = rng.random() < 0.3      # number columns whose values happen to be whole
    for i, k in enumerate(kinds):
        name = rng.choice(['a', 'b', 'col', 'x y', 'Name', 'é', 'n_1']) + str(i)
        # column 0 is never null: a row of only nulls is a blank line, which CSV cannot express
        null_p = 0 if i == 0 else rng.choice([0, 0, 0.3])
        vals, txt = [], []
        col = {'name': name}
        if k == 'boolean':
            sp = rng.choice([None, 'Y|N', 'yes|no', '1|0', 'T|F'])
            col['datatype'] = {'base': 'boolean', 'format': sp} if sp else 'boolean'
            t_, f_ = (sp.split('|') if sp else ('true', 'false'))
            for _ in range(nrows):
                v = None if rng.random() < null_p else rng.random() < 0.5
                vals.append(v)
                txt.append('' if v is None else (t_ if v else f_))
        elif k == 'integer':
            col['datatype'] = rng.choice(['integer', 'long', 'int'])
            for _ in range(nrows):
                v = None if rng.random() < null_p else rng.choice([0, -1, 7, 2**40, -2**53, rng.randint(-999, 999),
                                                                   2**53 + 1, -(2**53) - 3, 2**63 - 1])   # beyond exact doubles
                vals.append(v)
                txt.append('' if v is None else str(v))
        elif k == 'number':
            col['datatype'] = rng.choice(['number', 'double', 'decimal'])
            for _ in range(nrows):
                v = None if rng.random() < null_p else (rng.choice([0.0, 2.0, 17.0, -3.0, 1e10]) if whole_numbers else
                                                        rng.choice([0.0, -1.5, 1e10, 0.1, 2.0, round(rng.random() * 100, 3)]))
                vals.append(v)
                txt.append('' if v is None else repr(v))
        elif k == 'string':
            col['datatype'] = 'string'
            pool = [s for s in STRS if not enc.lower().replace('-', '').replace('_', '') in ('latin1', 'iso88591') or all(ord(c) < 256 for c in s)]
            for _ in range(nrows):
                v = None if rng.random() < null_p else rng.choice(pool)
                vals.append(v)
                if v is None:
                    txt.append('')
                elif delim in v or '"' in v or v != v.strip():
                    txt.append('"' + v.replace('"', '""') + '"')
                else:
                    txt.append(v)
        elif rng.random() < 0.25:
            # a plain date / datetime datatype with no format: the default ISO 8601 text
            col['datatype'] = k
            col['_pattern'] = None
            for _ in range(nrows):
                if rng.random() < null_p:
                    vals.append(None)
                    txt.append('')
                else:
                    t = datetime.datetime(rng.randint(1971, 2035), rng.randint(1, 12), rng.randint(1, 28),
                                          *((rng.randrange(24), rng.randrange(60), rng.randrange(60)) if k == 'datetime' else ()))
                    vals.append(t)
                    txt.append(t.strftime('%Y-%m-%d') if k == 'date' else t.strftime(rng.choice(['%Y-%m-%dT%H:%M:%S', '%Y-%m-%d %H:%M:%S'])))
        else:
            while True:
                toks, seps = gen_pattern(rng)
                if k == 'datetime' or not any(t in toks for t in ('HH', 'mm', 'ss')):
                    break
            if any(s == delim for s in seps):
                seps = ['-' if s == delim else s for s in seps]
                if delim == '-':
                    seps = ['/' for _ in seps]
            fmt = toks[0] + ''.join(s + t for s, t in zip(seps, toks[1:]))
            col['datatype'] = {'base': k, 'format': fmt}
            col['_pattern'] = (toks, seps)
            for _ in range(nrows):
                if rng.random() < null_p:
                    vals.append(None)
                    txt.append('')
                else:
                    t = gen_instant(rng, toks)
                    vals.append(truncate_instant(toks, t))
                    txt.append(csvw_format_instant(toks, seps, t))
        if titled:
            col['titles'] = rng.choice([name.upper() + ' title', [name + '!', 'other']])
        cols.append(col)
        data.append(vals)
        texts.append(txt)
    return dict(delim=delim, enc=enc, header=header, hdr_style=hdr_style, cols=cols,
                data=data, texts=texts, nrows=nrows, kinds=kinds,
                # reader options that must not change what DECLARED columns load as
                reader_kw=rng.choice([{}, {}, {'upgrade_possible_ints': True}]))


SLOT = [0]


def load_table(tb, workdir):
    from tdda.serial.reader import csv2pandas
    # the same few paths are written again and again with other tables (a re-export): what is loaded must always
    # be what is on disk now
    SLOT[0] += 1
    d = os.path.join(workdir, 'c16-slot%d' % (SLOT[0] % 3))
    shutil.rmtree(d, ignore_errors=True)
    os.makedirs(d)
    try:
        csvp = os.path.join(d, 't.csv')
        delim = tb['delim']
        with open(csvp, 'w', encoding=tb['enc'], newline='') as f:
            if tb['header']:
                def title(c):
                    t = c.get('titles')
                    return c['name'] if t is None else (t if isinstance(t, str) else t[0])
                f.write(delim.join(title(c) for c in tb['cols']) + '\n')
            for r in range(tb['nrows']):
                f.write(delim.join(tb['texts'][c][r] for c in range(len(tb['cols']))) + '\n')
        dialect = {}
        if delim != ',' or tb['enc'] != 'utf-8' or not tb['header']:
            dialect['delimiter'] = delim
            dialect['encoding'] = tb['enc']
        if not tb['header']:
            if tb['hdr_style'] == 'header':
                dialect['header'] = False
            else:
                dialect['headerRowCount'] = 0
        cols = [{k: v for k, v in c.items() if not k.startswith('_')} for c in tb['cols']]
        md = {'@context': 'http://www.w3.org/ns/csvw', 'url': 't.csv',
              'tableSchema': {'columns': cols}}
        if dialect and SLOT[0] % 4 == 1:
            # the other place CSVW allows a dialect: on the table description of a table group
            md = {'@context': 'http://www.w3.org/ns/csvw',
                  'tables': [{'url': 't.csv', 'dialect': dialect, 'tableSchema': {'columns': cols}}]}
            if SLOT[0] % 8 == 1:
                # ... while the table group has a dialect of its own, which the table's overrides
                md['dialect'] = {'delimiter': '\t' if delim != '\t' else ',', 'encoding': 'utf-8' if tb['enc'] != 'utf-8' else 'utf-16',
                                 'header': not tb['header']}
        elif dialect:
            md['dialect'] = dialect
        mdp = os.path.join(d, 't.csv-metadata.json')
        with open(mdp, 'w') as f:
            json.dump(md, f)
        import warnings
        with warnings.catch_warnings():
            warnings.simplefilter('ignore')      # pandas: fallback to the python engine for multi-byte separators
            df = csv2pandas(csvp, mdpath=mdp, verbosity=0, **tb.get('reader_kw', {}))
            df2 = None
            if 'tables' not in md and tb['header'] and not any('titles' in c for c in tb['cols']):
                import pandas as pd
                from tdda.serial.pandasio import gen_pandas_kwargs
                try:
                    df2 = pd.read_csv(csvp, **gen_pandas_kwargs(mdp))
                except Exception as e:
                    df2 = e
            tb['_kwargs_frame'] = df2
            return df
    finally:
        shutil.rmtree(d, ignore_errors=True)


EXPECT_DTYPE = {'boolean': 'boolean', 'integer': 'Int64', 'number': 'float64', 'string': 'string'}


def fmt_of(c):
    return c['datatype']['format'] if isinstance(c['datatype'], dict) else 'no format: ISO 8601'


def check_kwargs_dates(tb, df2):
    """the frame pandas.read_csv gives with gen_pandas_kwargs(metadata): declared date / datetime columns are parsed
    with their OWN formats (the other types are csv2pandas's business)"""
    import pandas as pd
    for i, c in enumerate(tb['cols']):
        if tb['kinds'][i] not in ('date', 'datetime'):
            continue
        nm = c['name']
        if nm not in df2.columns:
            return 'read_csv with the generated arguments: no column %r (columns %r)' % (nm, list(df2.columns))
        s = df2[nm]
        if all(v is None for v in tb['data'][i]):
            continue
        if not str(s.dtype).startswith('datetime64'):
            return 'read_csv with the generated arguments: column %r declared %s (%s) loaded as dtype %s' % (
                nm, tb['kinds'][i], fmt_of(c), s.dtype)
        for r, want in enumerate(tb['data'][i]):
            got = s.iloc[r]
            if want is None:
                if not pd.isnull(got):
                    return 'read_csv with the generated arguments: column %r row %d: expected null, got %r' % (nm, r, got)
            elif pd.isnull(got) or pd.Timestamp(want) != got:
                return 'read_csv with the generated arguments: column %r (%s) row %d: wrote %r (%s), read %r' % (
                    nm, fmt_of(c), r, want, tb['texts'][i][r], got)
    return None


def check_table(tb, df):
    """Returns None if the property holds for this table, else a description."""
    import pandas as pd
    names = [c['name'] for c in tb['cols']]
    if list(df.columns) != names:
        return 'column names %r != %r' % (list(df.columns), names)
    if len(df) != tb['nrows']:
        return 'row count %d != %d' % (len(df), tb['nrows'])
    for i, c in enumerate(tb['cols']):
        kind = tb['kinds'][i]
        s = df[c['name']]
        if kind in EXPECT_DTYPE:
            if str(s.dtype) != EXPECT_DTYPE[kind]:
                return 'column %r declared %s loaded as dtype %s' % (c['name'], kind, s.dtype)
        elif not str(s.dtype).startswith('datetime64'):
            return 'column %r declared %s (%s) loaded as dtype %s' % (
                c['name'], kind, fmt_of(c), s.dtype)
        for r, want in enumerate(tb['data'][i]):
            got = s.iloc[r]
            if want is None:
                if not pd.isnull(got):
                    return 'column %r row %d: expected null, got %r' % (c['name'], r, got)
                continue
            if pd.isnull(got):
                return 'column %r row %d: expected %r, got null' % (c['name'], r, want)
            if kind in ('date', 'datetime'):
                if pd.Timestamp(want) != got:
                    return 'column %r (%s) row %d: wrote %r (%s), read %r' % (
                        c['name'], fmt_of(c), r, want, tb['texts'][i][r], got)
            elif kind == 'boolean':
                if bool(got) != want:
                    return 'column %r row %d: expected %r, got %r' % (c['name'], r, want, got)
            elif kind == 'integer':
                if int(got) != want:
                    return 'column %r row %d: expected %r, got %r' % (c['name'], r, want, got)
            elif kind == 'number':
                if float(got) != want:
                    return 'column %r row %d: expected %r, got %r' % (c['name'], r, want, got)
            else:
                if str(got) != want:
                    return 'column %r row %d: expected %r, got %r' % (c['name'], r, want, got)
    return None


def classify(tb, msg):
    return None


def run(ctx):
    rng = ctx.rng
    # ---------------- layer A: translation, exact
    fmts = []
    kmax = 3 if ctx.quick else 4
    for k in range(1, kmax + 1):
        for toks in itertools.product(TOK, repeat=k):
            if k <= 2:
                sep_choices = itertools.product(SEPS, repeat=k - 1)
            elif k == 3 and not ctx.quick:
                sep_choices = itertools.product(SEPS, repeat=2)
            else:
                sep_choices = [tuple(rng.choice(SEPS) for _ in range(k - 1)) for _ in range(2)]
            for seps in sep_choices:
                fmts.append(toks[0] + ''.join(s + t for s, t in zip(seps, toks[1:])))
    nsep = len(fmts)
    for k in range(2, 4):
        for toks in itertools.product(TOK, repeat=k):
            fmts.append(''.join(toks))
    for _ in range(2000 if ctx.quick else 40000):
        fmts.append(''.join(rng.choice('dMyHmsS%-/.:T +Zzd\nYf') for _ in range(rng.randint(0, 12))))
    fmts += ['', 'yyyy-MM-dd', 'yyyy-MM-ddTHH:mm:ss', 'yyyy-MM-dd HH:mm:ss.SSS', 'yyyy-MM-dd\n',
             '%Y', 'yyyy-MM-ddTHH:mm:ss.S\n', 'yyyy-M-d']
    fmts = list(dict.fromkeys(fmts))
    mouts = ctx.model.call_many(3, fmts) if ctx.model_ok else [None] * len(fmts)
    for i, (fmt, mo) in enumerate(zip(fmts, mouts)):
        impl = impl_translate(fmt)
        ctx.count(('A', fmt), nontrivial=len(fmt) > 2)
        if mo is not None:
            ctx.cov['traces_validated_against_impl'] += 1
            if dstr(mo) != impl:
                ctx.mismatch('A:translate', fmt, dstr(mo), impl)
    ctx.extra['layerA_formats'] = len(fmts)
    ctx.extra['layerA_separated_formats'] = nsep
    ctx.sample({'layer': 'A', 'fmt': fmts[200], 'translated': impl_translate(fmts[200])})
    # separated formats: token-wise oracle (what the property requires of the translation)
    for k in range(1, 4 if ctx.quick else 5):
        for _ in range(1 if k > 1 else 1):
            pass
    for k in range(1, 4):
        for toks in itertools.product(TOK, repeat=k):
            for seps in (itertools.product(SEPS, repeat=k - 1) if k < 3 else
                         [tuple(rng.choice(SEPS) for _ in range(k - 1))]):
                src = toks[0] + ''.join(s + t for s, t in zip(seps, toks[1:]))
                exp = TOK[toks[0]] + ''.join(s + TOK[t] for s, t in zip(seps, toks[1:]))
                got = impl_translate(src)
                if got != exp and got != 'ISO8601':
                    ctx.fail({'layer': 'A', 'fmt': src},
                             'format %r translated to %r, token-wise translation is %r' % (src, got, exp))
    # ---------------- layer B: round trip through csv2pandas
    nB = 250 if ctx.quick else 6000
    work = os.path.join(lib.WORK, 'tmp')
    os.makedirs(work, exist_ok=True)
    for i in range(nB):
        tb = gen_table(rng)
        key = json.dumps({k: v for k, v in tb.items() if k != 'data'}, default=repr, sort_keys=True)
        ctx.count(('B', key), nontrivial=tb['nrows'] > 0)
        for k in tb['kinds']:
            ctx.bump('B.col.' + k)
        ctx.bump('B.enc.' + tb['enc'])
        ctx.bump('B.delim.' + repr(tb['delim']))
        ctx.bump('B.header.' + ('present' if tb['header'] else 'absent:' + tb['hdr_style']))
        ctx.bump('B.titles.' + str('titles' in tb['cols'][0]))
        try:
            df = load_table(tb, work)
            msg = check_table(tb, df)
            df2 = tb.pop('_kwargs_frame', None)
            if msg is None and df2 is not None:
                msg = ('read_csv with the generated arguments raised %s: %s' % (type(df2).__name__, str(df2)[:200])
                       if isinstance(df2, Exception) else check_kwargs_dates(tb, df2))
                ctx.bump('B.kwargs_path')
        except Exception as e:
            msg = 'csv2pandas raised %s: %s' % (type(e).__name__, str(e)[:300])
        if msg:
            case = {'layer': 'B', 'table': {k: v for k, v in tb.items() if k != 'data'},
                    'expected': [[None if v is None else str(v) for v in col] for col in tb['data']]}
            ctx.fail(case, msg, finding=classify(tb, msg))
        if i == 0:
            ctx.sample({'layer': 'B', 'cols': [{k: v for k, v in c.items() if k != '_pattern'}
                                                for c in tb['cols']],
                        'delim': tb['delim'], 'enc': tb['enc'], 'header': tb['header'],
                        'first_row_text': [(t[0] if t else None) for t in tb['texts']]})
    ctx.cov['rule'] = ('layer A: every separated format of up to %d documented tokens (all separators for <=2, '
                       'sampled beyond), all unseparated 2-3 token concatenations, random strings over the '
                       'format alphabet; non-trivial = longer than 2 chars. layer B: random typed tables '
                       '(boolean/integer/number/string/date/datetime with nulls) x delimiter x encoding x '
                       'header present/absent x boolean spellings x composed date patterns, written and '
                       'loaded back with csv2pandas' % kmax)
    ctx.assumptions += ['pandas.read_csv/strptime semantics of %d %m %y %Y %H %M %S %f and of format="ISO8601" '
                        'are not modelled; the round trip through them is checked only on generated tables',
                        'to_pandas_read_csv_args/CSVWMetadata plumbing is covered by the end-to-end oracle, '
                        'not by the Coq model']


def replay(ctx, data):
    case = data.get('case', {})
    if case.get('layer') == 'A':
        print(case['fmt'], '->', impl_translate(case['fmt']))
    else:
        print(json.dumps(case, indent=1)[:3000])
    return 0
