"""C05 - DataFrame comparison passes exactly when the checked structure and values agree.
(K) PandasComparison.check_dataframe on generated pairs (a copy mutated in zero or one aspect) x option shapes x
type-matching level x precision, compared component by component (verdict, missing / extra / wrongly typed
columns, order, row count, number of differing values) with the extracted model RefTest/FrameCmp.v on the abstract
frames; types_match vs the model on all pairs of dtype names; (S) an independent statement of the property on the
abstract frames, plus the entry points assertDataFramesEqual / assertDataFrameCorrect / assertOnDiskDataFrameCorrect
(parquet and CSV references, sortby, condition): an unexcused difference must surface as the assertion failure,
never as another exception."""
import contextlib
import io
import os
import shutil
import warnings

import numpy as np
import pandas as pd

import lib
from lib import dstrs

warnings.filterwarnings('ignore')

DTYPES = ['int64', 'float64', 'bool', 'object', 'string', 'str', 'category', 'datetime64[ns]', 'Int64', 'boolean',
          'int32', 'float32']
LEVELS = [None, 'strict', 'medium', 'permissive']


def gen_values(rng, dtype, n, precision):
    unit = 10.0 ** (-(precision if precision is not None else 6))
    if dtype in ('int64', 'int32'):
        return pd.Series([rng.randint(-5, 50) for _ in range(n)], dtype=dtype)
    if dtype in ('float64', 'float32'):
        vals = [rng.choice([np.nan, np.inf, -np.inf]) if rng.random() < 0.15 else rng.randint(-300, 300) * (unit if dtype == 'float64' else 0.25)
                for _ in range(n)]
        return pd.Series(vals, dtype=dtype)
    if dtype == 'bool':
        return pd.Series([rng.random() < 0.5 for _ in range(n)], dtype=bool)
    if dtype in ('object', 'string', 'str', 'category'):
        vals = [None if rng.random() < 0.15 else rng.choice(['a', 'b', 'é', '', 'x y', 'A', '10']) for _ in range(n)]
        s = pd.Series(vals, dtype=object)
        return s if dtype == 'object' else s.astype(dtype)
    if dtype == 'datetime64[ns]':
        vals = [pd.NaT if rng.random() < 0.15 else pd.Timestamp(2020, 1, 1) + pd.Timedelta(days=rng.randint(0, 40), seconds=rng.randint(0, 5))
                for _ in range(n)]
        return pd.Series(vals, dtype='datetime64[ns]')
    if dtype == 'Int64':
        return pd.Series(pd.array([None if rng.random() < 0.15 else rng.randint(-5, 50) for _ in range(n)], dtype='Int64'))
    if dtype == 'boolean':
        return pd.Series(pd.array([None if rng.random() < 0.15 else (rng.random() < 0.5) for _ in range(n)], dtype='boolean'))
    raise ValueError(dtype)


NAMES = ['a', 'b', 'c c', 'é', 'D', 'k9', 7, 8]


def gen_frame(rng, precision):
    n = rng.choice([0, 1, 2, 3, 5, 8])
    k = rng.randint(1, 4)
    names = rng.sample(NAMES[:6], k) if rng.random() < 0.85 else rng.sample(NAMES, k)
    cols = {}
    for nm in names:
        cols[nm] = gen_values(rng, rng.choice(DTYPES + ['float64', 'float64', 'float64', 'int64']), n, precision)
    return pd.DataFrame(cols)


def other_value(rng, ser, i, precision, within):
    """a value for row i that differs from the present one by more (or, within=True, far less) than the precision"""
    dt = str(ser.dtype)
    v = ser.iloc[i]
    unit = 10.0 ** (-(precision if precision is not None else 6))
    if dt.startswith('float'):
        if pd.isna(v) or np.isinf(v):
            return 1.0 if not within else v
        return v + (unit * 0.001 if within else unit * 3) if dt == 'float64' else (v if within else v + 1.0)
    if within:
        return v
    if dt.startswith('int'):
        return int(v) + 1
    if dt == 'Int64':
        return 1 if pd.isna(v) else int(v) + 1
    if dt == 'bool':
        return not bool(v)
    if dt == 'boolean':
        return True if pd.isna(v) else (not bool(v))
    if dt.startswith('datetime'):
        return pd.Timestamp(2021, 5, 5) if pd.isna(v) else v + pd.Timedelta(seconds=1)
    if dt == 'category':
        cats = [c for c in ser.cat.categories if not (isinstance(v, str) and c == v)]
        return cats[0] if cats else None
    return 'zz' if (v is None or (not isinstance(v, str)) or pd.isna(v)) else v + '!'


def mutate(rng, df, precision):
    """returns (actual, kind)"""
    a = df.copy()
    kinds = ['none', 'none', 'cell', 'cell', 'cell-within', 'rename', 'retype', 'move', 'drop', 'extra', 'row-drop', 'row-add']
    kind = rng.choice(kinds)
    cols = list(a)
    if kind in ('cell', 'cell-within') and len(a) and cols:
        c = rng.choice(cols)
        i = rng.randrange(len(a))
        try:
            nv = other_value(rng, a[c], i, precision, kind == 'cell-within')
            if str(a[c].dtype) == 'category' and nv is None:
                kind = 'none'
            else:
                a.iloc[i, cols.index(c)] = nv
        except Exception:
            kind = 'none'
            a = df.copy()
    elif kind == 'rename' and cols:
        c = rng.choice(cols)
        a = a.rename(columns={c: 'renamed'})
    elif kind == 'retype' and cols:
        c = rng.choice(cols)
        dt = str(a[c].dtype)
        target = {'int64': rng.choice(['float64', 'int32', 'Int64']), 'int32': 'int64', 'float64': 'float32', 'float32': 'float64',
                  'bool': rng.choice(['boolean', 'object']), 'object': rng.choice(['string', 'category']), 'string': 'object',
                  'str': 'object', 'category': 'object', 'Int64': 'float64', 'boolean': 'object',
                  'datetime64[ns]': 'datetime64[s]'}.get(dt)
        try:
            a[c] = a[c].astype(target)
        except Exception:
            kind = 'none'
            a = df.copy()
    elif kind == 'move' and len(cols) > 1:
        c = cols.pop(rng.randrange(len(cols)))
        cols.insert(rng.randrange(len(cols) + 1), c)
        a = a[cols]
    elif kind == 'drop' and len(cols) > 1:
        a = a.drop(columns=[rng.choice(cols)])
    elif kind == 'extra':
        a['extra!'] = 1
    elif kind == 'row-drop' and len(a):
        a = a.iloc[:-1].reset_index(drop=True)
    elif kind == 'row-add' and len(a):
        a = pd.concat([a, a.iloc[[0]]], ignore_index=True)
    else:
        kind = 'none'
    return a, kind


def gen_flag(rng, cols, allow_unknown=False):
    r = rng.random()
    if r < 0.45:
        return None
    if r < 0.55:
        return True
    if r < 0.7:
        return False
    sub = [c for c in cols if rng.random() < 0.6]
    if allow_unknown and rng.random() < 0.25:
        sub.append('nope')
    if rng.random() < 0.5:
        rng.shuffle(sub)        # a selection names columns; the order they are named in means nothing
    if r < 0.85:
        return sub
    if r < 0.92:
        return (lambda d, sub=sub: list(sub))
    # a selection that depends on the frame it is given (as the documented all_fields_except helper does): every field
    # of that frame but a few
    return (lambda d, ex=tuple(sub[:2]): [c for c in d if c not in ex])


def flag_payload(flag, df):
    if flag is None or flag is True:
        return [0, []]
    if flag is False:
        return [1, []]
    if callable(flag):
        flag = flag(df)
    return [2, [name_key(c) for c in flag]]


def flag_list(flag, df):
    if flag is None or flag is True:
        return list(df)
    if flag is False:
        return []
    if callable(flag):
        return list(flag(df))
    return list(flag)


def name_key(c):
    return repr(c)


def replace_cats_names(df):
    return {c: ('string' if str(df[c].dtype) == 'category' else df[c].dtype.name) for c in df}


def abstract(df, ref, precision):
    """abstract frames: (name key, dtype name, cell tokens); tokens equal iff pandas eq after rounding"""
    prec = 6 if precision is None else precision
    pool = []

    def tok(v):
        try:
            if v is None or v is pd.NaT or pd.isna(v):
                return []
        except (TypeError, ValueError):
            pass
        for i, w in enumerate(pool):
            try:
                if type(v) == type(w) or not isinstance(v, (str, pd.Timestamp)) and not isinstance(w, (str, pd.Timestamp)):
                    if v == w:
                        return [i]
            except Exception:
                pass
        pool.append(v)
        return [len(pool) - 1]

    def cols(d):
        d = pd.DataFrame({c: (d[c].astype('string') if str(d[c].dtype) == 'category' else d[c]) for c in d}) if len(list(d)) else d
        r = d.round(prec).reset_index(drop=True) if len(list(d)) else d
        out = []
        for c in d:
            out.append([name_key(c), 'category' if False else d[c].dtype.name, [tok(v) for v in r[c].tolist()]])
        return out
    return cols(df), cols(ref)


def spec(adf, aref, opts, level):
    """the property, stated directly on the abstract frames; returns (same?, reasons)"""
    dn = [c[0] for c in adf]
    rn = [c[0] for c in aref]
    D = {c[0]: c for c in adf}
    R = {c[0]: c for c in aref}
    reasons = []
    for c in opts['types']:
        if c not in D:
            reasons.append('missing ' + c)
        elif not types_match_py(D[c][1], R[c][1], level):
            reasons.append('type ' + c)
    for c in opts['extra']:
        if c in D and c not in R:          # a listed column counts as extra only if the actual frame has it
            reasons.append('extra ' + c)
    if opts['order'] is not None and not any(r.startswith('missing') for r in reasons):
        o1 = [c for c in dn if c in opts['order'] and c in R]
        o2 = [c for c in rn if c in opts['order'] and c in D]
        if o1 != o2:
            reasons.append('order')
    na = len(adf[0][2]) if adf else 0
    nr = len(aref[0][2]) if aref else 0
    if na != nr:
        reasons.append('rows')
    if not reasons:
        for c in opts['data']:
            if c not in D:
                reasons.append('absent ' + c)
            elif any((x == [] or y == []) and x != y or (x != [] and y != [] and x != y) for x, y in zip(D[c][2], R[c][2])):
                reasons.append('values ' + c)
    return (not reasons), reasons


def loosen(t):
    name = ''.join(ch for ch in t if not ch.isdigit()).lower()
    p = name.find('[')
    name = name[:p] if p > -1 else name
    return 'bool' if name == 'boolean' else name


def types_match_py(t1, t2, level):
    if level in (None, 'strict') or t1 == t2:
        return t1 == t2
    a, b = loosen(t1), loosen(t2)
    obj = ('string', 'boolean', 'datetime', 'bool')
    if a == b or (a == 'object' and b in obj) or (b == 'object' and a in obj):
        return True
    num = ('bool', 'boolean', 'int', 'float')
    return level == 'permissive' and a in num and b in num


def has_object_na(*frames):
    return any(str(d[c].dtype) == 'object' and any(v is pd.NA for v in d[c]) for d in frames for c in d)


class AssertFail(Exception):
    pass


def make_rt(tmp):
    from tdda.referencetest.referencetest import ReferenceTest

    def afn(ok, msg=None):
        if not ok:
            raise AssertFail(msg)
    rt = ReferenceTest(afn)
    rt.set_defaults(verbose=False)
    # (everything a failing assertion writes goes under the check's own work directory, not the system's /tmp)
    rt.tmp_dir = tmp
    rt.pandas.tmp_dir = tmp
    rt.files.tmp_dir = tmp
    return rt


def run(ctx):
    rng = ctx.rng
    from tdda.referencetest.checkpandas import PandasComparison, types_match
    tmp = os.path.join(lib.WORK, 'c05')
    shutil.rmtree(tmp, ignore_errors=True)
    os.makedirs(tmp)
    rt = make_rt(tmp)
    n = 500 if ctx.quick else 20000
    # ---- types_match vs the model on every pair of dtype names
    dnames = ['int64', 'int32', 'Int64', 'float64', 'float32', 'bool', 'boolean', 'object', 'string', 'str', 'category',
              'datetime64[ns]', 'datetime64[s]', 'datetime64[ns, UTC]', 'timedelta64[ns]', 'uint8', 'Float64']
    if ctx.model_ok:
        payloads = [(lv, a, b) for lv in (0, 1, 2) for a in dnames for b in dnames]
        outs = ctx.model.call_many(24, [[lv, a, b] for lv, a, b in payloads])
        for (lv, a, b), o in zip(payloads, outs):
            want = types_match(np.dtype('int64') if False else _Named(a), _Named(b), ['strict', 'medium', 'permissive'][lv])
            if bool(o) != bool(want):
                ctx.mismatch('types_match', {'level': lv, 't1': a, 't2': b}, bool(o), bool(want))
        ctx.cov['evaluations'] += len(payloads)
    cases, payloads = [], []
    # one comparison object for the whole sequence, as a ReferenceTest holds one: a verdict must not depend
    # on what was compared (or which options were used) before
    pc = PandasComparison(verbose=False, tmp_dir=tmp)
    for it in range(n):
        precision = rng.choice([None, None, 0, 1, 2, 3, 6])
        ref = gen_frame(rng, precision)
        act, kind = mutate(rng, ref, precision)
        # row labels play no part (rows are compared by position): frames that come from a filter, a sort or set_index
        # carry other labels than the reference read from a file
        relabel = rng.random()
        if relabel < 0.3 and len(act):
            labels = rng.sample(range(3 * len(act) + 5), len(act))
            act.index = labels if rng.random() < 0.7 else ['r%d' % i for i in labels]
            ctx.bump('relabelled.actual')
            if relabel < 0.08 and len(ref):
                ref.index = rng.sample(range(3 * len(ref) + 5), len(ref))
                ctx.bump('relabelled.reference')
        level = rng.choice(LEVELS)
        rcols, acols = list(ref), list(act)
        flags = {'check_data': gen_flag(rng, rcols), 'check_types': gen_flag(rng, rcols),
                 'check_order': gen_flag(rng, rcols), 'check_extra_cols': gen_flag(rng, acols, allow_unknown=True)}
        if kind == 'extra' and rng.random() < 0.5:
            # an extra column while the extra-column check is given as a function of the frame (every field but one that
            # both frames have): the extra column is among the fields it returns for the ACTUAL frame
            common_ = [c_ for c_ in rcols if c_ in acols]
            flags['check_extra_cols'] = (lambda d, ex=tuple(common_[:1]): [c_ for c_ in d if c_ not in ex])
            ctx.bump('extra_with_function_flag')
        case = {'ref': ref.to_dict('list').__repr__()[:1500], 'ref_dtypes': {name_key(c): str(ref[c].dtype) for c in ref},
                'mutation': kind, 'actual': act.to_dict('list').__repr__()[:1500],
                'actual_dtypes': {name_key(c): str(act[c].dtype) for c in act},
                'flags': {k: (v if not callable(v) else 'function') for k, v in flags.items()}, 'level': level, 'precision': precision}
        ctx.count(repr(case), kind != 'none')
        ctx.bump('mutation.' + kind)
        ctx.bump('level.%s' % level)
        try:
            with contextlib.redirect_stdout(io.StringIO()):
                # the caller's own frames, compared twice: the second verdict is about the same frames, which the first
                # comparison has left as they were
                act_in, ref_in = act.copy(), ref.copy()
                r = pc.check_dataframe(act_in, ref_in, precision=precision, type_matching=level,
                                       create_temporaries=False, **flags)
                if it % 3 == 0:
                    r_again = pc.check_dataframe(act_in, ref_in, precision=precision, type_matching=level,
                                                 create_temporaries=False, **flags)
                    if (r.failures == 0) != (r_again.failures == 0):
                        ctx.fail(case, 'comparing the same two frame objects a second time says %s, the first time %s'
                                 % ('correct' if r_again.failures == 0 else 'different', 'correct' if r.failures == 0 else 'different'))
                    # ... and each frame still passes against the copy taken before the comparison (all checks, no options)
                    for nm_, now_, was_ in (('actual', act_in, act), ('reference', ref_in, ref)):
                        try:
                            rr = pc.check_dataframe(now_, was_.copy(), create_temporaries=False)
                        except Exception:
                            continue
                        r0 = pc.check_dataframe(was_.copy(), was_.copy(), create_temporaries=False)
                        if rr.failures != 0 and r0.failures == 0:
                            ctx.fail(case, 'after the comparison the %s frame no longer compares as correct with the copy taken '
                                     'before it: the comparison changed the frame it was given' % nm_)
            got = {'same': r.failures == 0, 'missing': sorted(name_key(c) for c in r.diffs.df.missing),
                   'extra': sorted(name_key(c) for c in r.diffs.df.extra),
                   'types': sorted(name_key(c) for c in r.diffs.df.field_types),
                   'order': bool(r.diffs.df.actual_order),
                   'rows': any('different numbers of rows' in l for l in r.diffs.lines),
                   'ndiff': r.diffs.df.diff.n_diff_values if r.diffs.df.diff is not None else 0}
        except Exception as e:
            got = {'raised': type(e).__name__ + ': ' + str(e)[:150]}
        adf, aref = abstract(act, ref, precision)
        o = {'data': [name_key(c) for c in flag_list(flags['check_data'], ref)],
             'types': [name_key(c) for c in flag_list(flags['check_types'], ref)],
             'order': None if flags['check_order'] is False else [name_key(c) for c in flag_list(flags['check_order'], ref)],
             'extra': [name_key(c) for c in flag_list(flags['check_extra_cols'], act)]}
        same, reasons = spec(adf, aref, o, level)
        if 'raised' in got:
            ctx.fail(case, 'check_dataframe raised %s (the property requires a verdict; expected %s)'
                     % (got['raised'], 'pass' if same else 'an assertion failure: ' + ', '.join(reasons)),
                     finding='c05-object-na' if has_object_na(act, ref) else None)
            continue
        if got['same'] != same:
            ctx.fail(case, 'check_dataframe says %s, the checked structure and values %s' %
                     ('correct' if got['same'] else 'different', 'agree' if same else 'differ: ' + ', '.join(reasons)))
        if kind == 'none' and not got['same']:
            ctx.fail(case, 'a copy of the frame does not pass')
        cases.append((case, got))
        payloads.append([[flag_payload(flags['check_data'], ref), flag_payload(flags['check_types'], ref),
                          flag_payload(flags['check_order'], ref), flag_payload(flags['check_extra_cols'], act),
                          {None: 0, 'strict': 0, 'medium': 1, 'permissive': 2}[level]],
                         [[c[0], c[1], c[2]] for c in adf], [[c[0], c[1], c[2]] for c in aref]])
        if len(ctx.cov['samples']) < 3:
            ctx.sample({'case': case, 'impl': got})
    if ctx.model_ok:
        outs = ctx.model.call_many(23, payloads)
        for (case, got), o in zip(cases, outs):
            ctx.cov['traces_validated_against_impl'] += 1
            if o[0] == 1:
                ctx.mismatch('check_dataframe', case, 'KeyError', got)
                continue
            m = {'same': bool(o[1]), 'missing': sorted(dstrs(o[2])), 'extra': sorted(dstrs(o[3])),
                 'types': sorted(dstrs(o[4])), 'order': bool(o[5]), 'rows': bool(o[6]), 'ndiff': o[8]}
            absent = sorted(dstrs(o[7]))
            if absent:
                m['missing'] = sorted(set(m['missing']) | set(absent))
            if m != got:
                ctx.mismatch('check_dataframe', case, m, got)
    # ---- entry points, sortby and condition: the failure must be the assertion failure
    for it in range(80 if ctx.quick else 3000):
        precision = rng.choice([None, 2, 4])
        ref = gen_frame(rng, precision)
        if len(ref) == 0:
            continue
        ref.insert(0, 'key', list(range(len(ref))))
        act, kind = mutate(rng, ref, precision)
        entry = rng.choice(['equal', 'equal-sort', 'equal-cond', 'correct-parquet', 'correct-csv', 'ondisk-parquet'])
        case = {'entry': entry, 'mutation': kind, 'ref': repr(ref.to_dict('list'))[:1200], 'actual': repr(act.to_dict('list'))[:1200],
                'dtypes': {name_key(c): str(ref[c].dtype) for c in ref}, 'precision': precision}
        ctx.count(repr(case), True)
        ctx.bump('entry.' + entry)
        adf, aref = abstract(act, ref, precision)
        allc = {'data': [c[0] for c in aref], 'types': [c[0] for c in aref], 'order': [c[0] for c in aref], 'extra': [c[0] for c in adf]}
        want_same = None
        try:
            with contextlib.redirect_stdout(io.StringIO()):
                if entry == 'equal':
                    want_same, _ = spec(adf, aref, allc, None)
                    rt.assertDataFramesEqual(act.copy(), ref.copy(), precision=precision)
                elif entry == 'equal-sort':
                    want_same, _ = spec(adf, aref, allc, None)
                    if 'key' in act and act['key'].is_unique:
                        sh = act.sample(frac=1.0, random_state=rng.randint(0, 99))
                        rt.assertDataFramesEqual(sh, ref.copy(), precision=precision, sortby=['key'])
                    elif 'key' not in act and 'key' in ref:
                        # the sort column is missing from the actual frame: an assertion failure, not an error
                        want_same = False
                        ctx.bump('sortby_column_missing')
                        rt.assertDataFramesEqual(act.copy(), ref.copy(), precision=precision, sortby=['key'],
                                                 check_types=rng.choice([None, False]))
                    else:
                        continue
                elif entry == 'equal-cond':
                    t = rng.randint(0, len(ref))
                    if 'key' not in act:
                        continue
                    a2, r2 = act[act['key'] < t], ref[ref['key'] < t]
                    x, y = abstract(a2, r2, precision)
                    want_same, _ = spec(x, y, allc, None)
                    rt.assertDataFramesEqual(act.copy(), ref.copy(), precision=precision, condition=lambda d, t=t: d['key'] < t)
                else:
                    # reference written by tdda's own writer; only same-dtype-after-reload frames are judged
                    path = os.path.join(tmp, 'ref%d.%s' % (it, 'csv' if entry == 'correct-csv' else 'parquet'))
                    if entry == 'correct-csv':
                        continue
                    ref.to_parquet(path)
                    back = pd.read_parquet(path)
                    if list(back.dtypes.astype(str)) != list(ref.dtypes.astype(str)) or any(not isinstance(c, str) for c in ref):
                        continue
                    want_same, _ = spec(adf, aref, allc, None)
                    if entry == 'correct-parquet':
                        rt.assertDataFrameCorrect(act.copy(), path, precision=precision)
                    else:
                        apath = os.path.join(tmp, 'act%d.parquet' % it)
                        if any(not isinstance(c, str) for c in act):
                            continue
                        act.to_parquet(apath)
                        if list(pd.read_parquet(apath).dtypes.astype(str)) != list(act.dtypes.astype(str)):
                            continue
                        rt.assertOnDiskDataFrameCorrect(apath, path, precision=precision)
            if want_same is False:
                ctx.fail(case, 'the assertion passed although the frames differ (%s)' % kind)
        except AssertFail:
            if want_same is True:
                ctx.fail(case, 'the assertion failed although the checked structure and values agree')
        except Exception as e:
            ctx.fail(case, 'the assertion raised %s: %s instead of passing / failing' % (type(e).__name__, str(e)[:150]),
                     finding='c05-object-na' if has_object_na(act, ref) else None)
    # ---- one reference file compared several times in one process (a sorted comparison first): every comparison
    # judges the file as it is on disk, not as an earlier comparison left it in memory
    for it in range(6 if ctx.quick else 60):
        n = rng.randint(3, 6)
        keys = rng.sample(range(100), n)
        ref = pd.DataFrame({'key': keys, 'v': [rng.choice([1.5, 2.25, 7.0]) for _ in keys], 's': ['r%d' % k for k in keys]})
        if sorted(keys) == keys:
            continue
        fmt = rng.choice(['parquet', 'csv'])
        rp = os.path.join(tmp, 'twice%d.%s' % (it, fmt))
        perm = ref.sample(frac=1.0, random_state=it).reset_index(drop=True)
        if list(perm['key']) == keys:
            perm = ref.iloc[::-1].reset_index(drop=True)
        paths = {}
        for nm, fr in (('ref', ref), ('copy', ref), ('perm', perm)):
            pth = rp if nm == 'ref' else os.path.join(tmp, 'twice%d-%s.%s' % (it, nm, fmt))
            (fr.to_parquet(pth) if fmt == 'parquet' else fr.to_csv(pth, index=False))
            paths[nm] = pth
        case = {'scenario': 'same reference file compared three times', 'format': fmt, 'keys': keys}
        ctx.count(repr(case), True)
        ctx.bump('same_reference_several_times')
        steps = [('permuted rows, sortby key', paths['perm'], {'sortby': ['key']}, True),
                 ('identical copy, no sortby', paths['copy'], {}, True),
                 ('permuted rows, no sortby', paths['perm'], {}, False)]
        for what, ap, kw_, want in steps:
            try:
                with contextlib.redirect_stdout(io.StringIO()):
                    rt.assertOnDiskDataFrameCorrect(ap, rp, **kw_)
                got = True
            except AssertFail:
                got = False
            except Exception as e:
                ctx.fail(dict(case, step=what), 'the assertion raised %s: %s' % (type(e).__name__, str(e)[:150]))
                break
            if got != want:
                ctx.fail(dict(case, step=what), 'step "%s" after the earlier comparisons %s, it should %s'
                         % (what, 'passes' if got else 'fails', 'pass' if want else 'fail'))
                break
    # ---- on-disk comparisons of files with the same size and the same modification time (as after a checkout or an
    # archive extraction) that differ in one digit / one letter of a column name: the comparison is of contents
    for it in range(15 if ctx.quick else 100):
        n = rng.randint(2, 5)
        ref = pd.DataFrame({'key': list(range(10, 10 + n)), 'val': [rng.randint(100, 999) for _ in range(n)],
                            'txt': ['t%d' % rng.randint(10, 99) for _ in range(n)]})
        act = ref.copy()
        kind = ['digit', 'na-spelling', 'name', 'text', 'na-spelling', 'same'][it % 6]
        row = rng.randrange(n)
        if kind == 'na-spelling':
            # a cell holding an ordinary string that some readers take for a missing value (country code NA, the word
            # None ...) against an empty cell or another such spelling: different values
            sp = rng.sample(['NA', 'None', 'null', 'N/A', 'nan', 'n/a', '#N/A', '-'], 2)
            ref.loc[row, 'txt'] = sp[0]
            act = ref.copy()
            act.loc[row, 'txt'] = rng.choice(['', sp[1]])
        if kind == 'digit':
            act.loc[row, 'val'] = (int(ref.loc[row, 'val']) - 100 + 37) % 900 + 100
        elif kind == 'text':
            act.loc[row, 'txt'] = 'u' + str(ref.loc[row, 'txt'])[1:]
        elif kind == 'name':
            act = act.rename(columns={'val': 'vbl'})
        fmt = 'csv' if kind == 'na-spelling' else rng.choice(['csv', 'csv', 'parquet'])
        rp = os.path.join(tmp, 'same-size%d-ref.%s' % (it, fmt))
        ap = os.path.join(tmp, 'same-size%d-act.%s' % (it, fmt))
        for fr, pth in ((ref, rp), (act, ap)):
            (fr.to_parquet(pth) if fmt == 'parquet' else fr.to_csv(pth, index=False))
        st_ = os.stat(rp)
        os.utime(ap, ns=(st_.st_atime_ns, st_.st_mtime_ns))
        same_size = os.path.getsize(rp) == os.path.getsize(ap)
        want = kind == 'same'
        entry = rng.choice(['ondisk', 'csvfile', 'ondisk-list']) if fmt == 'csv' else rng.choice(['ondisk', 'ondisk-list'])
        case = {'scenario': 'on-disk files of equal size and modification time', 'format': fmt, 'kind': kind, 'entry': entry,
                'reference': ref.to_dict('list'), 'actual': act.to_dict('list'), 'same_size': same_size}
        ctx.count(repr(case), True)
        ctx.bump('same_size_same_mtime.%s.%s' % (fmt, kind))
        try:
            with contextlib.redirect_stdout(io.StringIO()):
                if entry == 'ondisk':
                    rt.assertOnDiskDataFrameCorrect(ap, rp)
                elif entry == 'csvfile':
                    rt.assertCSVFileCorrect(ap, rp)
                else:
                    rt.assertOnDiskDataFramesCorrect([ap], [rp])
            got = True
        except AssertFail:
            got = False
        except Exception as e:
            ctx.fail(case, 'the assertion raised %s: %s' % (type(e).__name__, str(e)[:150]))
            continue
        if got != want:
            ctx.fail(case, 'the on-disk assertion %s although the files hold %s frames'
                     % ('passes' if got else 'fails', 'equal' if want else 'different'))
    # ---- the plural on-disk entry points: several (actual, reference) pairs, one of which - at any position -
    # differs: the assertion fails; all equal: it passes
    for it in range(12 if ctx.quick else 150):
        npairs = rng.randint(2, 4)
        bad = rng.choice([None, 0, 0, rng.randrange(npairs)])
        fmt = rng.choice(['csv', 'parquet'])
        aps, rps = [], []
        for k in range(npairs):
            n = rng.randint(2, 4)
            ref = pd.DataFrame({'id': list(range(n)), 'amount': [rng.choice([1.5, 2.25, 30.125]) for _ in range(n)]})
            act = ref.copy()
            if k == bad:
                act.loc[rng.randrange(n), 'amount'] += 1.0
            rp = os.path.join(tmp, 'pairs%d-%d-ref.%s' % (it, k, fmt))
            ap = os.path.join(tmp, 'pairs%d-%d-act.%s' % (it, k, fmt))
            for fr, pth in ((ref, rp), (act, ap)):
                (fr.to_parquet(pth) if fmt == 'parquet' else fr.to_csv(pth, index=False))
            aps.append(ap)
            rps.append(rp)
        entry = rng.choice(['ondisk-list', 'csvfiles']) if fmt == 'csv' else 'ondisk-list'
        case = {'scenario': 'several pairs of on-disk frames', 'pairs': npairs, 'differing_pair': bad, 'format': fmt, 'entry': entry}
        ctx.count(repr(case) + str(it), True)
        ctx.bump('several_pairs.%s' % ('none differs' if bad is None else 'last differs' if bad == npairs - 1 else 'earlier differs'))
        try:
            with contextlib.redirect_stdout(io.StringIO()):
                (rt.assertOnDiskDataFramesCorrect if entry == 'ondisk-list' else rt.assertCSVFilesCorrect)(aps, rps)
            got = True
        except AssertFail:
            got = False
        except Exception as e:
            ctx.fail(case, 'the assertion raised %s: %s' % (type(e).__name__, str(e)[:150]))
            continue
        if got != (bad is None):
            ctx.fail(case, 'the assertion over %d pairs %s although %s' % (npairs, 'passes' if got else 'fails',
                     'pair %d differs in one value' % bad if bad is not None else 'every pair holds equal frames'))
    # ---- an in-memory frame against a CSV reference, default type matching (strict): a column whose dtype differs
    # from what the reference loads as - even within its family (int32 / Int64 / float32 / boolean) - is a type difference
    for it in range(16 if ctx.quick else 200):
        n = rng.randint(2, 5)
        ref = pd.DataFrame({'id': [rng.randint(0, 99) for _ in range(n)], 'amount': [rng.choice([1.5, 2.25, 7.0]) for _ in range(n)],
                            'flag': [rng.random() < 0.5 for _ in range(n)]})
        rp = os.path.join(tmp, 'csvref%d.csv' % it)
        ref.to_csv(rp, index=False)
        act = ref.copy()
        col, to = rng.choice([(None, None), ('id', 'int32'), ('id', 'Int64'), ('amount', 'float32'), ('flag', 'boolean'), ('id', 'float64')])
        if col:
            act[col] = act[col].astype(to)
        kw_ = rng.choice([{}, {}, {'type_matching': 'strict'}, {'check_types': ['id', 'amount', 'flag']}])
        loaded = None
        try:
            with contextlib.redirect_stdout(io.StringIO()):
                loaded = rt.pandas.load_serialized_dataframe(rp) if hasattr(rt.pandas, 'load_serialized_dataframe') else None
        except Exception:
            loaded = None
        case = {'scenario': 'in-memory frame against a CSV reference', 'changed_column': col, 'to_dtype': to, 'options': kw_,
                'reference': ref.to_dict('list')}
        ctx.count(repr(case) + str(it), True)
        ctx.bump('csv_reference.%s' % (to or 'same'))
        # the reference's types are what the library's reader gives for the file; only judge when they are the plain ones
        if loaded is not None and [str(t) for t in loaded.dtypes] != ['int64', 'float64', 'bool']:
            continue
        try:
            with contextlib.redirect_stdout(io.StringIO()):
                rt.assertDataFrameCorrect(act, rp, **kw_)
            got = True
        except AssertFail:
            got = False
        except Exception as e:
            ctx.fail(case, 'the assertion raised %s: %s' % (type(e).__name__, str(e)[:150]))
            continue
        if got != (col is None):
            ctx.fail(case, 'assertDataFrameCorrect against the CSV reference %s although column %r is %s (reference int64 / '
                     'float64 / bool, strict type matching)' % ('passes' if got else 'fails', col, to or 'unchanged'))
    shutil.rmtree(tmp, ignore_errors=True)
    ctx.cov['rule'] = ('reference frames over 12 dtypes (nulls, inf, categoricals, extension types, non-string column names) x '
                       'one mutation (cell beyond / within precision, rename, retype, move, drop, extra, row drop/add, none) x '
                       'option shapes (None/True/False/list/function per check) x type-matching level x precision; entry points '
                       'with sortby / condition / parquet references')
    ctx.assumptions += ['cell tokens are assigned by the harness from pandas round() + Python equality (rounding is an oracle)']


class _Named(object):
    def __init__(self, name):
        self.name = name


def replay(ctx, data):
    print(data.get('what'))
    return 0
