"""C10 - references are rewritten only on request; a regenerated reference passes.
Histories of set_regeneration / argv parsing / assertions on a sandbox directory, run against the
real ReferenceTest and against RefTest/Regen.v; plus the property oracle on every step."""
import contextlib
import io
import os
import shutil

import lib
from lib import dstr, dopt
from props import textcmp as T
from props.c04 import join_text

KINDS = [None, 'table', 'graph', 'csv', 'parquet']
ARGVS = [['--write', 'table'], ['-w', 'graph'], ['--w', 'table,graph'], ['--write-all'], ['-W'], ['--W'],
         ['-v', '--write', 'csv', 'table'], ['--wquiet', '--write', 'graph'], ['-1W'], ['--tagged'],
         ['-v'], ['--write', 'a,b,,graph'], ['-Wv', '-1'], ['--write'], ['--write', 'parquet'], ['-w', 'csv'],
         ['--write', 'parquet', 'graph']]


def snapshot(d):
    out = {}
    for f in sorted(os.listdir(d)):
        p = os.path.join(d, f)
        st = os.stat(p)
        out[f] = (open(p, 'rb').read(), st.st_mtime_ns)
    return out


def reset_class_state():
    from tdda.referencetest.referencetest import ReferenceTest
    from tdda.referencetest import referencetestcase as R
    ReferenceTest.regenerate.clear()
    ReferenceTest.default_data_locations.clear()
    ReferenceTest.verbose = True
    R.ReferenceTestCase.verbose = True


def make_rt(tmp):
    from tdda.referencetest.referencetest import ReferenceTest

    class Failed(Exception):
        pass

    def assert_fn(cond, msg=None):
        if not cond:
            raise Failed(msg)
    rt = ReferenceTest(assert_fn)
    rt.verbose = False
    rt.print_fn = lambda *a, **k: None
    rt.tmp_dir = tmp
    rt.files.tmp_dir = tmp
    rt.files.verbose = False
    rt.pandas.verbose = False
    rt.pandas.print_fn = lambda *a, **k: None
    rt.files.print_fn = lambda *a, **k: None
    rt.pandas.tmp_dir = tmp
    return rt, Failed


def gen_text(rng):
    lines = [T.gen_line(rng) for _ in range(rng.randint(0, 4))]
    return join_text(rng, lines)


def gen_simple_opts(rng):
    return dict(lstrip=rng.random() < .3, rstrip=rng.random() < .3,
                ignore_substrings=rng.choice([[], [], ['DATE'], ['a']]), ignore_patterns=[],
                remove_lines=rng.choice([[], [], ['opt'], ['b']]),
                max_permutation_cases=rng.choice([0, 0, 2]), preprocess=None)


def opts_payload(o, apath):
    return (o['lstrip'], o['rstrip'], o['ignore_substrings'], 0, o['remove_lines'],
            o['max_permutation_cases'], False, apath)


def gen_frame(rng):
    import numpy as np
    import pandas as pd
    n = rng.randint(0, 5)
    cols = {}
    for j in range(rng.randint(1, 4)):
        k = rng.choice(['int', 'float', 'str', 'bool', 'dt', 'Int64'])
        if k == 'int':
            cols['i%d' % j] = np.array([rng.randint(-5, 5) for _ in range(n)], dtype='int64')
        elif k == 'float':
            cols['f%d' % j] = np.array([rng.choice([0.5, -1.25, float('nan'), 3.0, 1e-9]) for _ in range(n)],
                                       dtype='float64')
        elif k == 'str':
            vals = [rng.choice(['a', 'é', None, '', 'x y']) for _ in range(n)]
            cols['s%d' % j] = pd.Series(vals, dtype=object) if rng.random() < 0.3 else pd.Series(vals, dtype='str')
        elif k == 'bool':
            cols['b%d' % j] = np.array([rng.random() < .5 for _ in range(n)], dtype=bool)
        elif k == 'Int64':
            cols['n%d' % j] = pd.array([rng.choice([1, 2, None]) for _ in range(n)], dtype='Int64')
        else:
            cols['d%d' % j] = pd.to_datetime([rng.choice(['2020-01-02 00:00:00', '1999-12-31 23:59:59', None])
                                              for _ in range(n)], format='%Y-%m-%d %H:%M:%S').astype(
                                                  rng.choice(['datetime64[ns]', 'datetime64[us]', 'datetime64[ms]',
                                                              'datetime64[s]']))
    return pd.DataFrame(cols)


def run(ctx):
    rng = ctx.rng
    nH = 250 if ctx.quick else 5000
    base = T.workdir()
    try:
        payloads, records = [], []
        for h in range(nH):
            data = os.path.join(base, 'd%d' % h)
            tmp = os.path.join(base, 't%d' % h)
            os.makedirs(data)
            os.makedirs(tmp)
            reset_class_state()
            rt, Failed = make_rt(tmp)
            from tdda.referencetest import referencetestcase as R
            from tdda.referencetest.referencetest import ReferenceTest
            # initial files
            fs0 = {}
            for name in ('ref_a.txt', 'ref_b.txt', 'act1.txt', 'act2.txt', 'ref.bin', 'act.bin'):
                if rng.random() < 0.75 or name.startswith('act'):
                    content = gen_text(rng) if name.endswith('.txt') else \
                        ''.join(chr(rng.randrange(256)) for _ in range(rng.randint(0, 6)))
                    fs0[name] = content
                    with open(os.path.join(data, name), 'wb') as f:
                        f.write(content.encode('utf-8') if name.endswith('.txt') else content.encode('latin-1'))
            ops, outcomes = [], []
            want_table = {}          # independent bookkeeping of what was requested
            regen_done = []          # (op, snapshot of ref content) for the regen-then-check oracle
            for stepno in range(rng.randint(2, 7)):
                r = rng.random()
                ap_pdf_ = os.path.join(data, 'act_pdf.txt')
                if not os.path.exists(ap_pdf_):
                    with open(ap_pdf_, 'w', encoding='utf-8') as f_:
                        f_.write('caf\u00e9 Z\u00fcrich\nplain line\n')
                before = snapshot(data)
                if r < 0.2:
                    k, b = rng.choice(KINDS), rng.random() < 0.7
                    ReferenceTest.set_regeneration(k, b)
                    want_table[k] = b
                    ops.append((0, [k] if k is not None else [], b))
                    outcomes.append(0)
                elif r < 0.4:
                    argv = ['prog'] + rng.choice(ARGVS)
                    try:
                        R._set_flags_from_argv(list(argv))
                        outcomes.append(0)
                        tail = argv[1:]
                        for i_, a_ in enumerate(tail):
                            if a_ in ('--write', '-w', '--w'):
                                for r_ in tail[i_ + 1:]:
                                    for kk in r_.split(','):
                                        want_table[kk] = True
                                break
                            if a_ in ('--write-all', '--W') or (a_.startswith('-') and not a_.startswith('--')
                                                                and 'W' in a_):
                                want_table[None] = True
                    except Exception:
                        outcomes.append(3)
                    ops.append((1, argv))
                else:
                    kind = rng.choice(KINDS + ['other'])
                    which = rng.choice(['string', 'string', 'textfile', 'binary', 'textfiles', 'frame', 'pdftext'])
                    o = gen_simple_opts(rng)
                    kw = dict(lstrip=o['lstrip'], rstrip=o['rstrip'],
                              ignore_substrings=o['ignore_substrings'] or None,
                              remove_lines=o['remove_lines'] or None,
                              max_permutation_cases=o['max_permutation_cases'])
                    regen_expected = bool(want_table.get(kind, want_table.get(None, False)))
                    if bool(rt._should_regenerate(kind)) != regen_expected:
                        ctx.fail({'history': h, 'ops': repr(ops), 'kind': kind},
                                 'kind %r: library decides regenerate=%r, the requests so far (%r) select %r'
                                 % (kind, bool(rt._should_regenerate(kind)), want_table, regen_expected))
                    ref = rng.choice(['ref_a.txt', 'ref_b.txt'])
                    actual_s = None
                    df = gen_frame(rng) if which == 'frame' else None
                    try:
                        if which == 'string':
                            actual_s = rng.choice([gen_text(rng), fs0.get(ref, 'zz'), gen_text(rng)])
                            ops.append((2, [kind] if kind is not None else [], opts_payload(o, False),
                                        actual_s, ref))
                            call = lambda: rt.assertStringCorrect(actual_s, os.path.join(data, ref), kind=kind, **kw)
                            call()
                        elif which == 'textfile':
                            ap = rng.choice(['act1.txt', 'act2.txt'])
                            ops.append((3, [kind] if kind is not None else [], opts_payload(o, True), ap, ref))
                            call = lambda: rt.assertTextFileCorrect(os.path.join(data, ap),
                                                                    os.path.join(data, ref), kind=kind, **kw)
                            call()
                        elif which == 'pdftext':
                            # a text reference whose name ends in .pdf (compared as ISO-8859-1) and non-ASCII UTF-8
                            # content: outside the model (oracle only)
                            ref = 'doc.pdf'
                            ap_ = os.path.join(data, 'act_pdf.txt')
                            ops.append(None)
                            call = lambda: rt.assertTextFileCorrect(ap_, os.path.join(data, 'doc.pdf'), kind=kind)
                            call()
                        elif which == 'textfiles':
                            ap = rng.choice(['act1.txt', 'act2.txt'])
                            ops.append((3, [kind] if kind is not None else [], opts_payload(o, True), ap, ref))
                            call = lambda: rt.assertTextFilesCorrect([os.path.join(data, ap)],
                                                                     [os.path.join(data, ref)], kind=kind, **kw)
                            call()
                        elif which == 'binary':
                            ops.append((4, [kind] if kind is not None else [], 'act.bin', 'ref.bin'))
                            ref = 'ref.bin'
                            call = lambda: rt.assertBinaryFileCorrect(os.path.join(data, 'act.bin'),
                                                                      os.path.join(data, 'ref.bin'), kind=kind)
                            call()
                        else:
                            # (the extension is recognised whatever its case)
                            ref = rng.choice(['frame.parquet', 'frame.parquet', 'Frame.PARQUET', 'frame.v2.Parquet'])
                            ops.append(None)      # frames are outside the model: oracle only
                            fkw = {}
                            if rng.random() < 0.4:
                                # the frame is said to come from a file (actual_path is used in messages only): a file
                                # of the reference's format that holds OTHER data, or one that does not exist
                                src = os.path.join(data, rng.choice(['source.parquet', 'missing.parquet']))
                                if src.endswith('source.parquet') and not os.path.exists(src):
                                    import pandas as pd_
                                    pd_.DataFrame({'other': [1, 2, 3, 4], 'cols': ['p', 'q', 'r', 's']}).to_parquet(src)
                                    before = snapshot(data)
                                fkw = {'actual_path': src}
                                ctx.bump('frame.actual_path')
                            if len(list(df.columns)) >= 2 and rng.random() < 0.35:
                                # a volatile column left out of the data and type checks (as lists, or with the helper)
                                keep_ = [c_ for c_ in df.columns][:-1]
                                sel_ = keep_ if rng.random() < 0.5 else rt.all_fields_except([list(df.columns)[-1]])
                                fkw = dict(fkw, check_data=sel_, check_types=sel_)
                                ctx.bump('frame.columns_excluded')
                            call = lambda ref=ref, fkw=fkw: rt.assertDataFrameCorrect(df, os.path.join(data, ref), kind=kind, **fkw)
                            call()
                        oc = 2 if regen_expected else 0
                    except Failed:
                        oc = 1
                    except RecursionError:
                        oc = 3
                    except Exception as e:
                        oc = 3
                        if regen_expected:
                            ctx.fail({'history': h, 'ops': repr(ops[-3:]), 'which': which},
                                     'assertion in regeneration mode raised %s: %s instead of writing its reference'
                                     % (type(e).__name__, str(e)[:200]))
                    outcomes.append(oc)
                    after = snapshot(data)
                    case = {'history': h, 'step': stepno, 'assertion': which, 'kind': kind,
                            'table': repr(dict(ReferenceTest.regenerate)), 'ref': ref}
                    ctx.count(('step', h, stepno, which, repr(kind), regen_expected, oc), True)
                    ctx.bump('%s.%s' % (which, {0: 'pass', 1: 'fail', 2: 'regenerated', 3: 'raised'}[oc]))
                    # --- property oracle
                    changed = sorted(set(k_ for k_ in set(before) | set(after) if before.get(k_) != after.get(k_)))
                    if not regen_expected and changed:
                        ctx.fail(case, 'normal-mode assertion (%s, outcome %d) changed %r' % (which, oc, changed))
                    if regen_expected and [c for c in changed if c != ref]:
                        ctx.fail(case, 'regenerating %s wrote other files too: %r' % (ref, changed))
                    if regen_expected and oc == 2:
                        # the same assertion on the same actual in normal mode must pass
                        saved = dict(ReferenceTest.regenerate)
                        ReferenceTest.regenerate.clear()
                        try:
                            call()
                        except Failed as e:
                            fnd = None
                            if which == 'frame' and any(str(t) == 'object' for t in df.dtypes):
                                fnd = 'c10-object-string-parquet'
                            elif which == 'frame' and any(str(t) == 'datetime64[s]' for t in df.dtypes):
                                fnd = 'c10-datetime-seconds-parquet'
                            ctx.fail(case, 'regenerated reference %s does not pass its own assertion (%s): %s'
                                     % (ref, which, str(e)[:300]), finding=fnd)
                        except Exception as e:
                            ctx.fail(case, 'check after regeneration raised %s: %s' % (type(e).__name__, str(e)[:200]))
                        finally:
                            ReferenceTest.regenerate.clear()
                            ReferenceTest.regenerate.update(saved)
                        for f in os.listdir(tmp):
                            os.remove(os.path.join(tmp, f))
            # table selection oracle: named kinds only
            final = snapshot(data)
            table = dict(ReferenceTest.regenerate)
            quiet = not R.ReferenceTestCase.verbose
            records.append((h, fs0, ops, outcomes, final, table, quiet))
            shutil.rmtree(data, ignore_errors=True)
            shutil.rmtree(tmp, ignore_errors=True)
        # ---------------- argv -> which kinds regenerate (oracle on the real table)
        for argv_tail in ARGVS:
            reset_class_state()
            from tdda.referencetest import referencetestcase as R
            rt, Failed = make_rt(base)
            try:
                R._set_flags_from_argv(['prog'] + list(argv_tail))
            except Exception:
                continue
            named = set()
            allk = False
            for i, a in enumerate(argv_tail):
                if a in ('--write', '-w', '--w'):
                    for r_ in argv_tail[i + 1:]:
                        named.update(r_.split(','))
                    break
                if a in ('--write-all', '--W') or (a.startswith('-') and not a.startswith('--') and 'W' in a):
                    allk = True
            for k in ['table', 'graph', 'csv', 'parquet', 'zzz', None, 'a', 'b']:
                want = allk or (k in named)
                if bool(rt._should_regenerate(k)) != want:
                    ctx.fail({'argv': argv_tail, 'kind': k},
                             'after argv %r kind %r regenerate=%r, property requires %r'
                             % (argv_tail, k, bool(rt._should_regenerate(k)), want))
            ctx.count(('argv', tuple(argv_tail)), True)
        reset_class_state()
        # ---------------- relative reference names: several objects of one class, each with its own data locations
        # (set before any of them is used), asserting the same relative name and kind; a regenerating assertion writes
        # the file in ITS object's location for that kind and nowhere else, and then passes there
        for it in range(25 if ctx.quick else 400):
            reset_class_state()
            root = os.path.join(base, 'loc%d' % it)
            nobj = rng.randint(2, 3)
            objs = []
            class_default = rng.random() < 0.4
            if class_default:
                # a default location for the whole class (set before the objects exist); objects with locations of their
                # own are not affected by it, an object without any uses it
                cdir = os.path.join(root, 'class-default')
                os.makedirs(cdir)
                ReferenceTest.set_default_data_location(cdir)
            for j in range(nobj):
                rt_j, Failed = make_rt(base)
                if class_default and j == nobj - 1:
                    objs.append((rt_j, {None: cdir}))
                    continue
                locs = {None: os.path.join(root, 'obj%d' % j)}
                if rng.random() < 0.5:
                    locs['csv'] = os.path.join(root, 'obj%d-csv' % j)
                for k_, d_ in locs.items():
                    os.makedirs(d_)
                    rt_j.set_data_location(d_, kind=k_)
                objs.append((rt_j, locs))
            name = rng.choice(['out.txt', 'report.txt'])
            seq = [(rng.randrange(nobj), rng.choice([None, 'csv', 'graph']), 'content of step %d\nline\n' % n_) for n_ in range(rng.randint(2, 5))]
            case = {'scenario': 'relative reference names, one class, several objects', 'objects': nobj,
                    'locations': [sorted((str(k_), os.path.relpath(d_, root)) for k_, d_ in l.items()) for _, l in objs],
                    'steps': [(j, k_, name) for j, k_, _ in seq]}
            ctx.count(repr(case), True)
            ctx.bump('relative_names')
            ReferenceTest.set_regeneration(None, True)
            want_files = {}
            okay = True
            for j, k_, text in seq:
                rt_j, locs = objs[j]
                target = os.path.join(locs.get(k_, locs[None]), name)
                try:
                    rt_j.assertStringCorrect(text, name, kind=k_)
                except Exception as e:
                    ctx.fail(dict(case, step=(j, k_)), 'regenerating assertion raised %s: %s' % (type(e).__name__, str(e)[:200]))
                    okay = False
                    break
                want_files[target] = text
                have = {}
                for dp, _, fs_ in os.walk(root):
                    for f_ in fs_:
                        have[os.path.join(dp, f_)] = open(os.path.join(dp, f_), encoding='utf-8', newline='').read()
                if have != want_files:
                    ctx.fail(dict(case, step=(j, k_)),
                             'after object %d regenerated %r (kind %r) the locations hold %r, expected %r'
                             % (j, name, k_, {os.path.relpath(a, root): b for a, b in have.items()},
                                {os.path.relpath(a, root): b for a, b in want_files.items()}))
                    okay = False
                    break
            ReferenceTest.set_regeneration(None, False)
            if okay:
                last = {}
                for j, k_, text in seq:
                    last[(j, objs[j][1].get(k_, objs[j][1][None]))] = (k_, text)
                for (j, _), (k_, text) in last.items():
                    try:
                        objs[j][0].assertStringCorrect(text, name, kind=k_)
                    except Failed as e:
                        ctx.fail(dict(case, step=(j, k_)), 'object %d: the reference it regenerated does not pass the same '
                                 'assertion in normal mode: %s' % (j, str(e)[:200]))
                    except Exception as e:
                        ctx.fail(dict(case, step=(j, k_)), 'normal-mode assertion raised %s: %s' % (type(e).__name__, str(e)[:200]))
            shutil.rmtree(root, ignore_errors=True)
        reset_class_state()
        # ---------------- the pytest integration (referencepytest: --write KINDS / --write-all through the ref fixture):
        # exactly the references of the named kinds are rewritten - also when a kind is the name of a directory or file
        # in the directory pytest is started from (references of kind 'table' kept in ./table) - and nothing else
        import subprocess
        KINDS_P = ['table', 'graph', 'csv']
        for it in range(6 if ctx.quick else 60):
            proj = os.path.join(base, 'pytest%d' % it)
            os.makedirs(os.path.join(proj, 'reference'))
            for k_ in KINDS_P:
                os.makedirs(os.path.join(proj, k_))
                with open(os.path.join(proj, k_, k_ + '.txt'), 'w') as f_:
                    f_.write('old %s\n' % k_)
            with open(os.path.join(proj, 'reference', 'plain.txt'), 'w') as f_:
                f_.write('old plain\n')
            with open(os.path.join(proj, 'conftest.py'), 'w') as f_:
                f_.write("import os, pytest\nfrom tdda.referencetest import referencepytest\n"
                         "HERE = os.path.dirname(os.path.abspath(__file__))\n"
                         "def pytest_addoption(parser):\n    referencepytest.addoption(parser)\n"
                         "def pytest_collection_modifyitems(session, config, items):\n    referencepytest.tagged(config, items)\n"
                         "@pytest.fixture(scope='module')\ndef ref(request):\n    r = referencepytest.ref(request)\n"
                         "    r.set_data_location(os.path.join(HERE, 'reference'))\n"
                         + ''.join("    r.set_data_location(os.path.join(HERE, %r), kind=%r)\n" % (k_, k_) for k_ in KINDS_P)
                         + "    return r\n")
            with open(os.path.join(proj, 'test_refs.py'), 'w') as f_:
                f_.write(''.join("def test_%s(ref):\n    ref.assertStringCorrect('new %s\\n', '%s.txt', kind=%r)\n" % (k_, k_, k_, k_) for k_ in KINDS_P)
                         + "def test_plain(ref):\n    ref.assertStringCorrect('new plain\\n', 'plain.txt')\n")
            named = rng.sample(KINDS_P, rng.randint(1, 2))
            spelling = rng.choice([[','.join(named)], list(named)])
            write_all = rng.random() < 0.2
            argv = ['--write-all'] if write_all else ['--write'] + spelling
            if rng.random() < 0.5:
                argv = ['--wquiet'] + argv
            env_ = dict(os.environ, PYTHONPATH=lib.REPO, PYTHONHASHSEED='0', PYTHONDONTWRITEBYTECODE='1', TDDA_FAIL_DIR=os.path.join(proj, 'failtmp'))
            pr = subprocess.run([lib.PY, '-m', 'pytest', '-q', '-p', 'no:cacheprovider', 'test_refs.py'] + argv, cwd=proj, env=env_,
                                stdout=subprocess.PIPE, stderr=subprocess.STDOUT, text=True, timeout=300)
            case = {'scenario': 'pytest ref fixture', 'argv': argv, 'kinds_with_their_own_directory_here': KINDS_P}
            ctx.count(repr(case) + str(it), True)
            ctx.bump('pytest.%s' % ('write-all' if write_all else 'write'))
            if 'error' in pr.stdout.lower() and 'passed' not in pr.stdout and 'failed' not in pr.stdout:
                ctx.fail(case, 'pytest did not run the tests: %s' % pr.stdout[-300:])
                shutil.rmtree(proj, ignore_errors=True)
                continue
            now = {k_: open(os.path.join(proj, k_, k_ + '.txt')).read() for k_ in KINDS_P}
            now['plain'] = open(os.path.join(proj, 'reference', 'plain.txt')).read()
            want_new = set(KINDS_P + ['plain']) if write_all else set(named)
            got_new = set(k_ for k_, t_ in now.items() if t_ == 'new %s\n' % k_)
            odd = {k_: t_ for k_, t_ in now.items() if t_ not in ('new %s\n' % k_, 'old %s\n' % k_)}
            if got_new != want_new or odd:
                ctx.fail(case, 'pytest %s rewrote the references of %r (other content: %r); the kinds named select %r: %s'
                         % (' '.join(argv), sorted(got_new), odd, sorted(want_new), pr.stdout[-200:]))
            shutil.rmtree(proj, ignore_errors=True)
        reset_class_state()
        # ---------------- on-disk DataFrame assertions with a relative reference name and per-kind data locations: the
        # regenerating assertion writes exactly one file, and the same assertion in normal mode then reads THAT file
        import pandas as pd
        for it in range(12 if ctx.quick else 200):
            reset_class_state()
            root = os.path.join(base, 'kinds%d' % it)
            rt_k, Failed = make_rt(base)
            locs = {None: os.path.join(root, 'default')}
            for k_ in rng.sample(['csv', 'parquet', 'table'], rng.randint(1, 3)):
                locs[k_] = os.path.join(root, 'loc-' + k_)
            for k_, d_ in locs.items():
                os.makedirs(d_)
                rt_k.set_data_location(d_, kind=k_)
            os.makedirs(os.path.join(root, 'actual'))
            fmt = rng.choice(['parquet', 'csv'])
            ap = os.path.join(root, 'actual', 'result.' + fmt)
            fr = pd.DataFrame({'id': [1, 2, 3], 'v': [rng.choice([1.5, 2.5]) for _ in range(3)]})
            (fr.to_parquet(ap) if fmt == 'parquet' else fr.to_csv(ap, index=False))
            kind_kw = rng.choice([{}, {}, {'kind': 'csv'}, {'kind': 'table'}])
            plural = rng.random() < 0.3
            name = 'result.' + fmt
            case = {'scenario': 'on-disk frame, relative reference name, per-kind locations', 'format': fmt,
                    'locations': sorted(str(k_) for k_ in locs), 'kind_argument': kind_kw.get('kind', '<default>'), 'plural': plural}
            ctx.count(repr(case) + str(it), True)
            ctx.bump('ondisk_relative')

            def listing():
                out = {}
                for dp, _, fs_ in os.walk(root):
                    for f_ in fs_:
                        if os.path.join(dp, f_) != ap:
                            out[os.path.relpath(os.path.join(dp, f_), root)] = os.path.getsize(os.path.join(dp, f_))
                return out

            def call():
                with contextlib.redirect_stdout(io.StringIO()):
                    if plural:
                        rt_k.assertOnDiskDataFramesCorrect([ap], [name], **kind_kw)
                    else:
                        rt_k.assertOnDiskDataFrameCorrect(ap, name, **kind_kw)
            ReferenceTest.set_regeneration(None, True)
            try:
                call()
            except Exception as e:
                ctx.fail(case, 'the regenerating assertion raised %s: %s' % (type(e).__name__, str(e)[:200]))
                shutil.rmtree(root, ignore_errors=True)
                continue
            wrote = listing()
            if len(wrote) != 1:
                ctx.fail(case, 'the regenerating assertion wrote %r (exactly one reference file expected)' % sorted(wrote))
            ReferenceTest.set_regeneration(None, False)
            try:
                call()
            except Failed as e:
                ctx.fail(case, 'after regeneration (which wrote %r) the same assertion fails in normal mode: %s' % (sorted(wrote), str(e)[:200]))
            except Exception as e:
                ctx.fail(case, 'after regeneration (which wrote %r) the same assertion raises %s: %s' % (sorted(wrote), type(e).__name__, str(e)[:200]))
            if listing() != wrote:
                ctx.fail(case, 'the normal-mode assertion changed the files: %r -> %r' % (sorted(wrote), sorted(listing())))
            shutil.rmtree(root, ignore_errors=True)
        reset_class_state()
        # ---------------- regeneration over an existing reference of the same size and modification time
        # (files from an archive or a reproducible build): the reference must be rewritten, and then pass
        for it in range(10 if ctx.quick else 150):
            reset_class_state()
            rt, Failed = make_rt(base)
            d2 = os.path.join(base, 'same%d' % it)
            os.makedirs(d2)
            binary = rng.random() < 0.4
            new = ('version 1.0.%d\nline two\n' % rng.randrange(10)).encode() if not binary else bytes([1, 2, rng.randrange(256), 4])
            old = new[:-2] + bytes([new[-2] ^ 1]) + new[-1:]
            ap, rp = os.path.join(d2, 'act.bin' if binary else 'act.txt'), os.path.join(d2, 'ref.bin' if binary else 'ref.txt')
            with open(ap, 'wb') as f:
                f.write(new)
            with open(rp, 'wb') as f:
                f.write(old)
            stamp = 1500000000 + rng.randrange(1000)
            os.utime(ap, (stamp, stamp))
            os.utime(rp, (stamp, stamp))
            case = {'scenario': 'same size and mtime', 'binary': binary, 'new': repr(new), 'old_reference': repr(old)}
            ctx.count(repr(case) + str(it), True)
            ctx.bump('same_stat_regeneration')
            ReferenceTest.set_regeneration(None, True)
            try:
                (rt.assertBinaryFileCorrect if binary else rt.assertTextFileCorrect)(ap, rp)
            except Exception as e:
                ctx.fail(case, 'assertion in regeneration mode raised %s' % type(e).__name__)
            if open(rp, 'rb').read() != new:
                ctx.fail(case, 'regeneration was requested but the reference still holds %r' % open(rp, 'rb').read())
            ReferenceTest.set_regeneration(None, False)
            try:
                (rt.assertBinaryFileCorrect if binary else rt.assertTextFileCorrect)(ap, rp)
            except Failed:
                ctx.fail(case, 'the assertion fails against the reference it has just been asked to regenerate')
            shutil.rmtree(d2, ignore_errors=True)
        reset_class_state()
        # ---------------- correspondence with the model (histories without frames)
        todo = [r for r in records if all(o is not None for o in r[2])]
        payloads = [([(n, c) for n, c in sorted(fs0.items())], ops) for (_, fs0, ops, _, _, _, _) in todo]
        mouts = ctx.model.call_many(8, payloads) if ctx.model_ok else []
        for (h, fs0, ops, outcomes, final, table, quiet), mo in zip(todo, mouts):
            ctx.cov['traces_validated_against_impl'] += 1
            m_out = list(mo[0])
            m_fs = {dstr(n): dstr(c) for n, c in mo[1]}
            m_table = {dopt(k, dstr): bool(b) for k, b in mo[2]}
            i_fs = {}
            for n, (content, _) in final.items():
                if n.lower().endswith(('.parquet', '.pdf')) or n == 'act_pdf.txt':
                    continue        # outside the model (oracle only)
                i_fs[n] = content.decode('utf-8') if n.endswith('.txt') else content.decode('latin-1')
            if m_out != outcomes or m_fs != i_fs or m_table != table or bool(mo[3]) != quiet:
                ctx.mismatch('history', {'fs0': fs0, 'ops': ops},
                             {'outcomes': m_out, 'fs': m_fs, 'table': repr(m_table), 'quiet': bool(mo[3])},
                             {'outcomes': outcomes, 'fs': i_fs, 'table': repr(table), 'quiet': quiet})
        ctx.extra['histories'] = nH
        ctx.extra['histories_compared_with_model'] = len(todo)
        if records:
            ctx.sample({'fs0': records[0][1], 'ops': records[0][2], 'outcomes': records[0][3]})
    finally:
        reset_class_state()
        shutil.rmtree(base, ignore_errors=True)
    ctx.cov['rule'] = ('histories of 2-7 operations (set_regeneration, argv parsing over 14 spellings, string / text '
                       'file / text files / binary / DataFrame assertions with kind labels) on a sandbox directory; '
                       'each assertion step is one evaluation; distinct by (history, step, assertion, kind, mode, outcome)')
    ctx.assumptions += ['DataFrame assertions are outside the Coq model (parquet writing/reading is pandas): covered by '
                        'the step oracle only', 'file contents are compared after utf-8/latin-1 decoding']


def replay(ctx, data):
    print(data.get('what'))
    print(data.get('case'))
    return 0
