"""C02 - verification verdicts equal the documented meaning of each constraint.
verify_df on generated (frame, constraint set) pairs vs Constraints/Model.v (verify_dataset) and vs
the documented meaning (cons.meaning); totals, per-field counts, to_frame() and str()."""
import io
import contextlib
import re

import lib
from props import cons as C

NAMES = ['f0', 'a b', 'é', 'F_3', 'x.y', 'f0_x']   # (f0_x: a name that extends another name with '_')


def gen_case(rng):
    ncols = rng.randint(1, 3)
    names = rng.sample(NAMES, ncols)
    cols = {}
    n = rng.choice([0, 1, 2, 3, 4, 6, 9])
    for nm in names:
        cols[nm] = C.gen_column(rng, n=n)
    cons_ = {}
    for nm in names:
        if rng.random() < 0.9:
            cons_[nm] = C.gen_constraints(rng, cols[nm])
    if rng.random() < 0.25:
        ghost_like = C.gen_column(rng, n=n)
        cons_['ghost'] = C.gen_constraints(rng, ghost_like)
    eps = rng.choice([0, 0.01, 0.5, None])
    strict = rng.random() < 0.4
    return dict(cols=cols, cons=cons_, eps=eps, strict=strict, report=rng.choice(['all', 'fields']))


BIG = [2 ** 53 + 1, 2 ** 53 + 3, 2 ** 53 + 5, 2 ** 62 + 1, 2 ** 63 - 4, -(2 ** 53) - 3, -(2 ** 62) - 1, -(2 ** 53) - 1]


def gen_bigint_case(rng):
    """min/max bounds equal to data extremes that a double cannot represent: the documented meaning compares exactly"""
    vals = rng.sample(BIG, rng.choice([1, 2, 3]))
    cells = [rng.choice(vals) for _ in range(rng.choice([1, 2, 4]))]
    col = C.normalise_column({'type': 'int', 'cells': cells, 'variant': 'int64'})
    cs = {}
    for kind in rng.sample(['min', 'max'], rng.choice([1, 2])):
        b = min(cells) if kind == 'min' else max(cells)
        cs[kind] = {'value': b + rng.choice([0, 0, 0, 1, -1]), 'precision': rng.choice([None, 'fuzzy', 'closed', 'open'])}
    return dict(cols={'big': col}, cons={'big': cs}, eps=rng.choice([0, None, 0.01]), strict=rng.random() < 0.5, report='all')


def run_impl(case, repair=False, frame=None):
    from tdda.constraints import verify_df
    df = C.frame_of(case['cols']) if frame is None else frame
    d = {'fields': {nm: {k: C.json_constraint(k, s) for k, s in cs.items()}
                    for nm, cs in case['cons'].items() if cs}}
    err = io.StringIO()
    import copy as _copy
    df_in, d_before = df.copy(), _copy.deepcopy(d)
    with contextlib.redirect_stderr(err), contextlib.redirect_stdout(err):
        v = verify_df(df_in, d, epsilon=case['eps'], type_checking='strict' if case['strict'] else 'sloppy',
                      repair=repair, report=case['report'])
    # (without repair, verification reads its arguments and leaves them as they were: the caller's frame and the
    # caller's constraint dictionary are the caller's)
    changed = []
    if not repair:
        try:
            if list(df_in.columns) != list(df.columns) or [str(t) for t in df_in.dtypes] != [str(t) for t in df.dtypes] \
                    or repr(df_in.to_dict('list')) != repr(df.to_dict('list')):
                changed.append('the DataFrame')
        except Exception:
            pass
    if repr(d) != repr(d_before):
        changed.append('the constraint dictionary (now %r)' % (d,))
    with contextlib.redirect_stderr(err), contextlib.redirect_stdout(err):
        fields = {}
        for nm, fr in v.fields.items():
            fields[nm] = ({k: (None if fr[k] is None else bool(fr[k])) for k in C.KINDS if k in fr},
                          int(fr.passes), int(fr.failures))
        frame = v.to_frame()
        text = str(v)
    return dict(passes=int(v.passes), failures=int(v.failures), fields=fields, frame=frame, text=text,
                order=list(v.fields.keys()), changed=changed)


def field_order(case):
    """verify(): fields sorted by position in the data, unknown fields first (stable)."""
    names = list(case['cols'])
    keys = [k for k, cs in case['cons'].items() if cs]
    return sorted(keys, key=lambda f: names.index(f) if f in names else -1)


def model_payload(case):
    eps = 0.0 if case['eps'] is None else case['eps']      # int 0 stays exact, as in the call
    fields = []
    for nm in field_order(case):
        cs = case['cons'][nm]
        col = case['cols'].get(nm)
        fields.append(([C.enc_column(col)] if col is not None else [],
                       [C.enc_constraint(k, cs[k], col, eps) for k in C.ordered(cs)]))
    return (case['strict'], fields)


def check_case(ctx, case, mo):
    eps = 0.0 if case['eps'] is None else case['eps']      # int 0 stays exact, as in the call
    try:
        r = run_impl(case)
    except Exception as e:
        ctx.fail(describe(case), 'verify_df raised %s: %s' % (type(e).__name__, str(e)[:300]),
                 finding=classify_exception(case, e))
        return
    if r.get('changed'):
        # observed only: changing an argument is not by itself a wrong verdict (C06 checks a second batch against the
        # constraint set already used, which is where such a change would show)
        ctx.bump('arguments_changed')
    order = field_order(case)
    # ---- documented meaning
    want_p = want_f = 0
    for nm in order:
        cs = case['cons'][nm]
        col = case['cols'].get(nm)
        verdicts, p, f = r['fields'].get(nm, ({}, 0, 0))
        wp = wf = 0
        for k in C.ordered(cs):
            want = C.meaning(k, cs[k], col, eps, case['strict'])
            wp += want
            wf += not want
            if verdicts.get(k) is not want:
                ctx.fail(describe(case, nm, k),
                         'field %r constraint %s=%r on %s %r (epsilon %r, %s): reported %r, documented meaning %r'
                         % (nm, k, cs[k], col['type'] if col else 'missing field',
                            col['cells'] if col else None, case['eps'],
                            'strict' if case['strict'] else 'sloppy', verdicts.get(k), want),
                         finding=classify_verdict(case, nm, k))
        if (p, f) != (sum(1 for k in verdicts if verdicts[k] is True),
                      sum(1 for k in verdicts if verdicts[k] is False)):
            ctx.fail(describe(case, nm), 'field %r: passes/failures %r do not equal the verdict counts %r'
                     % (nm, (p, f), verdicts))
        want_p += wp
        want_f += wf
    tot_p = sum(v[1] for v in r['fields'].values())
    tot_f = sum(v[2] for v in r['fields'].values())
    if (r['passes'], r['failures']) != (tot_p, tot_f):
        ctx.fail(describe(case), 'totals %r differ from the sum of per-field counts %r'
                 % ((r['passes'], r['failures']), (tot_p, tot_f)))
    if r['order'] != order:
        ctx.fail(describe(case), 'fields reported %r, expected %r' % (r['order'], order))
    # ---- tabular form and str()
    fr = r['frame']
    if list(fr['field']) != r['order'] or [int(x) for x in fr['failures']] != [r['fields'][n][2] for n in r['order']] \
            or [int(x) for x in fr['passes']] != [r['fields'][n][1] for n in r['order']]:
        ctx.fail(describe(case), 'to_frame() counts differ from the verification: %r' % fr.to_dict('list'))
    else:
        import pandas as pd
        for i, nm in enumerate(r['order']):
            for k, vd in r['fields'][nm][0].items():
                cell = fr[k].iloc[i] if k in fr else None
                cell = None if cell is None or (not isinstance(cell, bool) and pd.isnull(cell)) else bool(cell)
                if cell is not vd:
                    ctx.fail(describe(case, nm, k), 'to_frame() shows %r for %s.%s, verdict is %r' % (cell, nm, k, vd))
    m = re.search(r'Constraints passing: (\d+)\s+Constraints failing: (\d+)', r['text'].replace('\n', ' '))
    if not m or (int(m.group(1)), int(m.group(2))) != (r['passes'], r['failures']):
        ctx.fail(describe(case), 'str() summary %r differs from totals %r'
                 % (m.groups() if m else r['text'][-200:], (r['passes'], r['failures'])))
    # ---- model
    if mo is not None and mo != '!stack':
        ctx.cov['traces_validated_against_impl'] += 1
        m_fields = {}
        for nm, fr_ in zip(order, mo[2]):
            ks = C.ordered(case['cons'][nm])
            m_fields[nm] = ({k: bool(b) for k, b in zip(ks, fr_[0])}, fr_[1], fr_[2])
        i_fields = {nm: r['fields'][nm] for nm in order if nm in r['fields']}
        if (mo[0], mo[1]) != (r['passes'], r['failures']) or m_fields != i_fields:
            ctx.mismatch('verify_dataset', describe(case), {'passes': mo[0], 'failures': mo[1], 'fields': m_fields},
                         {'passes': r['passes'], 'failures': r['failures'], 'fields': i_fields})


def classify_exception(case, e):
    if 'Categorical is not ordered' in str(e):
        for nm, c in case['cols'].items():
            cs = case['cons'].get(nm, {})
            if c['variant'].startswith('category') and any(k in cs and cs[k]['value'] is not None
                                                  for k in ('min', 'max', 'sign')):
                return 'c02-minmax-categorical'
    if 'Cannot convert non-finite values' in str(e) and not case['strict']:
        import math
        for nm, c in case['cols'].items():
            tv = case['cons'].get(nm, {}).get('type', {}).get('value')
            tv = tv if isinstance(tv, list) else [tv]
            if c['type'] == 'real' and any(x is not None and math.isinf(x) for x in c['cells']) and \
                    ('int' in tv or 'bool' in tv):
                return 'c02-sloppy-int-inf'
    return None


def classify_verdict(case, nm, k):
    return None


def describe(case, nm=None, k=None):
    d = {'cols': {n: {'type': c['type'], 'variant': c['variant'], 'cells': [repr(x) for x in c['cells']]}
                  for n, c in case['cols'].items()},
         'constraints': {n: {kk: repr(s) for kk, s in cs.items()} for n, cs in case['cons'].items()},
         'epsilon': case['eps'], 'strict': case['strict']}
    if nm is not None:
        d['field'] = nm
    if k is not None:
        d['kind'] = k
    return d


def null_constraint_independence(ctx, rng, case, prefer=()):
    """Adding a null-valued constraint changes no other verdict."""
    names = [n for n in case['cons'] if case['cons'][n]]
    if not names:
        return
    if prefer:
        cand = [n for n in names if (case['cons'][n].get('type') or {}).get('value') in ('string', 'bool')]
        names = cand or names
    nm = rng.choice(names)
    free = [k for k in C.KINDS if k not in case['cons'][nm]]
    if not free:
        return
    k = rng.choice([x for x in free if x in prefer] or free)
    try:
        base = run_impl(case)
        case2 = dict(case, cons={n: dict(cs) for n, cs in case['cons'].items()})
        case2['cons'][nm][k] = {'value': None}
        ext = run_impl(case2)
    except Exception:
        return
    for n in base['fields']:
        b = base['fields'][n][0]
        e = {kk: vv for kk, vv in ext['fields'].get(n, ({}, 0, 0))[0].items() if not (n == nm and kk == k)}
        if b != e:
            ctx.fail(describe(case, nm, k), 'adding null-valued %s to %r changed verdicts %r -> %r' % (k, nm, b, e))
    # (a field the data lacks fails every constraint, null-valued or not: DESIGN 7 C02)
    if nm in case['cols'] and ext['fields'].get(nm, ({},))[0].get(k) is not True:
        ctx.fail(describe(case, nm, k), 'null-valued %s on %r reported %r, must be satisfied'
                 % (k, nm, ext['fields'].get(nm, ({},))[0].get(k)))
    ctx.count(('indep', repr(describe(case, nm, k))), True)
    # ---- the same with the default repair=True: a null-valued constraint still changes no other verdict
    try:
        base_r = run_impl(case, repair=True)
        ext_r = run_impl(case2, repair=True)
    except Exception:
        return
    for n in base_r['fields']:
        b = base_r['fields'][n][0]
        e = {kk: vv for kk, vv in ext_r['fields'].get(n, ({}, 0, 0))[0].items() if not (n == nm and kk == k)}
        if b != e:
            ctx.fail(dict(describe(case, nm, k), repair=True),
                     'with the default repair=True, adding null-valued %s to %r changed verdicts %r -> %r' % (k, nm, b, e))
    # ---- repair=True with a bool type constraint on an integer column means: judged as the boolean column
    for n, cs in case['cons'].items():
        col = case['cols'].get(n)
        if col is None or not cs or (cs.get('type') or {}).get('value') != 'bool' or col['type'] != 'int' \
                or col['variant'] not in ('int64', 'int32', 'int8') or any(x is None for x in col['cells']):
            continue
        try:
            fr = C.frame_of(case['cols'])
            fr2 = fr.copy()
            fr2[n] = fr2[n].astype(bool)
            if any(case['cons'].get(m, {}).get('type', {}).get('value') in ('bool', 'string') for m in case['cons'] if m != n):
                continue
            a = run_impl(case, repair=True, frame=fr)
            b2 = run_impl(case, repair=False, frame=fr2)
        except Exception:
            continue
        ctx.bump('repair_bool_on_int')
        if a['fields'].get(n) != b2['fields'].get(n):
            ctx.fail(dict(describe(case, n, 'type'), repair=True),
                     'repair=True with type bool on the integer column %r gives %r; the repaired (boolean) column gives %r'
                     % (n, a['fields'].get(n), b2['fields'].get(n)))


def run(ctx):
    rng = ctx.rng
    n = 1200 if ctx.quick else 40000
    cases = [gen_case(rng) for _ in range(n)] + [gen_bigint_case(rng) for _ in range(n // 20)]
    n = len(cases)
    payloads = [model_payload(c) for c in cases]
    mouts = ctx.model.call_many(9, payloads) if ctx.model_ok else [None] * n
    for i, (case, mo) in enumerate(zip(cases, mouts)):
        nontriv = any(c['cells'] for c in case['cols'].values()) and any(case['cons'].values())
        ctx.count(repr(describe(case)), nontriv)
        for cs in case['cons'].values():
            for k, s in cs.items():
                ctx.bump('kind.' + k + ('.null' if s['value'] is None else ''))
        for c in case['cols'].values():
            ctx.bump('col.' + c['type'] + '.' + c['variant'])
        check_case(ctx, case, mo)
        # (more often where the repair step can come into play: a string or bool type constraint on a numeric column)
        repairable = any((cs.get('type') or {}).get('value') in ('string', 'bool') and
                         case['cols'].get(n_, {}).get('type') in ('int', 'real')
                         for n_, cs in case['cons'].items() if cs)
        if i % 6 == 0 or repairable:
            null_constraint_independence(ctx, rng, case, prefer=('min', 'max') if repairable else ())
    # ---- flag columns: an integer column (0/1 and other values, several widths) whose field is declared 'bool', with
    # the default repair: the verdicts are those of the repaired (boolean) column (checked inside
    # null_constraint_independence), whatever else is constrained on the field
    for it in range(30 if ctx.quick else 600):
        variant = rng.choice(['int64', 'int64', 'int32', 'int8'])
        cells = [rng.choice([0, 1]) for _ in range(rng.randint(1, 6))] if rng.random() < 0.7 else \
            [rng.choice([0, 1, 3, -2]) for _ in range(rng.randint(1, 6))]
        col = C.normalise_column({'type': 'int', 'cells': cells, 'variant': variant})
        cs = {'type': {'value': 'bool'}}
        if rng.random() < 0.4:
            cs['max_nulls'] = {'value': rng.choice([0, 1])}
        if rng.random() < 0.3:
            cs['no_duplicates'] = {'value': True}
        other = C.normalise_column({'type': 'real', 'cells': [rng.choice([0.5, 2.0, None]) for _ in cells], 'variant': 'float64'})
        case = dict(cols={'flag': col, 'other': other}, cons={'flag': cs, 'other': {'max': {'value': 2.0}}},
                    eps=rng.choice([0, None, 0.01]), strict=rng.random() < 0.5, report='all')
        ctx.count(('flag-column', repr(describe(case))), True)
        ctx.bump('flag_columns')
        null_constraint_independence(ctx, rng, case, prefer=('min', 'max'))
    ctx.sample(describe(cases[0]))
    ctx.sample(describe(cases[1]))
    ctx.cov['rule'] = ('frames of 1-3 abstract columns (bool/int/real/string/date x dtype variants, 0-9 rows, null '
                       'patterns, one-signed and mixed data, infinities, +-2^53, unicode) x 1-5 constraints per field '
                       'with bounds on / just inside / just outside the data extremes (nextafter, +-1, *(1+-eps)), all '
                       'precisions, epsilon in {None,0,0.01,0.5}, strict/sloppy, missing fields, null-valued '
                       'constraints; non-trivial = some column has rows and some field has constraints')
    ctx.assumptions += ['IEEE multiplication in fuzz_down/fuzz_up is an oracle value computed by CPython from the '
                        'documented formula b*(1-+eps)', 're.match for rex constraints is an oracle (one bool per distinct string)',
                        'domain of the model: date bounds only on date columns, allowed_values only on string columns']


def replay(ctx, data):
    print(data.get('what'))
    return 0
