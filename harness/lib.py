"""Shared machinery: build (translator, Coq, extraction, OCaml), S-expression
codec, model runner, reporting (violations / known findings / evidence)."""
import hashlib
import json
import os
import random
import re
import subprocess
import sys
import time

VERIF = os.path.dirname(os.path.dirname(os.path.abspath(__file__)))
REPO = os.environ.get('TDDA_REPO', '/repo')
COQ = os.path.join(VERIF, 'coq')
OCAML = os.path.join(VERIF, 'ocaml')
WORK = os.path.join(VERIF, '.work')
RUNNER = os.path.join(OCAML, 'runner')
PY = '/venv/bin/python'

FORBIDDEN = re.compile(
    r'\b(Admitted|admit|Axiom|Axioms|Parameter|Parameters|Conjecture|Conjectures|'
    r'Hypothesis|Hypotheses|Variable|Variables|bypass_check)\b|Unset\s+Guard|'
    r'Admit\s+Obligations|type-in-type|impredicative-set|Unset\s+Positivity|'
    r'Unset\s+Universe|native_compute')

TRUSTED_BASE = [
    'Coq 8.16.1 kernel and coqc (vm_compute only in Examples/_refuted witnesses and finite sweeps; no native_compute)',
    'axioms: none (every property theorem must print "Closed under the global context")',
    'extraction: Require Extraction + ExtrOcamlBasic only (stock directives for bool/option/unit/list/prod/sumbool/sumor; no Extract Constant/Inductive of our own); nat/positive/Z stay extracted inductives',
    'ocamlfind ocamlopt 4.13.1 and ocaml/driver.ml (hex S-expression reader/printer and dispatch; no logic)',
    'gen/extract_consts.py (fail-closed ast translator for constants/tables) and the Python harness abstraction/canonicalisation functions',
    'modelled, not verified: pandas, SQLite, CPython re/json/unittest/argparse/subprocess/filesystem behaviour (validated only by the correspondence check)',
]


# ---------------------------------------------------------------- sexp codec

def enc(o):
    """Python value -> sexp text.  str -> list of code points; None -> ();
    bool -> 1/0; int -> hex atom; list/tuple -> list."""
    if o is None:
        return '()'
    if o is True:
        return '1'
    if o is False:
        return '0'
    if isinstance(o, int):
        return format(o, 'x')
    if isinstance(o, str):
        return '(' + ' '.join(format(ord(c), 'x') for c in o) + ')'
    if isinstance(o, (bytes, bytearray)):
        return '(' + ' '.join(format(c, 'x') for c in o) + ')'
    if isinstance(o, (list, tuple)):
        return '(' + ' '.join(enc(x) for x in o) + ')'
    raise TypeError('cannot encode %r' % (o,))


_TOK = re.compile(r'\(|\)|[^\s()]+')


def dec(text):
    stack = [[]]
    for t in _TOK.findall(text):
        if t == '(':
            stack.append([])
        elif t == ')':
            l = stack.pop()
            stack[-1].append(l)
        else:
            stack[-1].append(int(t, 16))
    assert len(stack) == 1 and len(stack[0]) == 1, text[:200]
    return stack[0][0]


def dstr(x):
    return ''.join(chr(c) for c in x)


def dstrs(x):
    return [dstr(s) for s in x]


def dopt(x, f=lambda v: v):
    return None if x == [] else f(x[0])


# ---------------------------------------------------------------- build

def sh(cmd, timeout=1800, cwd=None, env=None):
    p = subprocess.run(cmd, shell=isinstance(cmd, str), cwd=cwd, env=env,
                       stdout=subprocess.PIPE, stderr=subprocess.STDOUT,
                       timeout=timeout, text=True, errors='replace')
    return p.returncode, p.stdout


def coq_sources():
    out = []
    for root, dirs, files in os.walk(COQ):
        for f in files:
            if f.endswith('.v'):
                out.append(os.path.join(root, f))
    return sorted(out)


def forbidden_gate():
    bad = []
    for path in coq_sources():
        txt = open(path, encoding='utf-8').read()
        # strip comments (non-nested is enough for our sources; nested handled by loop)
        prev = None
        while prev != txt:
            prev = txt
            txt = re.sub(r'\(\*[^()]*?\*\)', ' ', txt, flags=re.S)
        txt = re.sub(r'\(\*.*?\*\)', ' ', txt, flags=re.S)
        in_section = 0
        for n, line in enumerate(txt.split('\n'), 1):
            if re.match(r'\s*Section\b', line):
                in_section += 1
            if re.match(r'\s*End\b', line) and in_section:
                in_section -= 1
            for m in FORBIDDEN.finditer(line):
                w = m.group(0)
                if in_section and re.match(r'(Variable|Variables|Hypothesis|Hypotheses)$', w):
                    continue
                bad.append('%s:%d: %s' % (os.path.relpath(path, VERIF), n, w))
    return bad


def build(verbose=False):
    """Translator + full .vo build + extraction + OCaml runner.
    Returns dict(ok_model, log, make_rc, gate, translator_error)."""
    os.makedirs(WORK, exist_ok=True)
    info = {'translator_error': None, 'gate': [], 'make_rc': None, 'ok_model': False}
    rc, out = sh([PY, os.path.join(VERIF, 'gen', 'extract_consts.py')],
                 env=dict(os.environ, PYTHONPATH=REPO, PYTHONHASHSEED='0'))
    log = out
    if rc != 0:
        info['translator_error'] = out[-2000:]
    if not os.path.exists(os.path.join(COQ, 'Makefile')) or \
            os.path.getmtime(os.path.join(COQ, 'Makefile')) < os.path.getmtime(os.path.join(COQ, '_CoqProject')):
        rc, out = sh('coq_makefile -f _CoqProject -o Makefile', cwd=COQ)
        log += out
    rc, out = sh('timeout 3000 make -k -j16 2>&1', cwd=COQ, timeout=3100)
    log += out
    info['make_rc'] = rc
    info['gate'] = forbidden_gate()
    model_ml = os.path.join(OCAML, 'model.ml')
    if os.path.exists(model_ml):
        stamp = os.path.join(OCAML, '.runner.sha')
        h = hashlib.sha256(open(model_ml, 'rb').read() +
                           open(os.path.join(OCAML, 'driver.ml'), 'rb').read()).hexdigest()
        if not (os.path.exists(RUNNER) and os.path.exists(stamp) and open(stamp).read() == h):
            rc2, out2 = sh('ocamlfind ocamlopt -w -a model.mli model.ml driver.ml -o runner', cwd=OCAML)
            log += out2
            if rc2 == 0:
                open(stamp, 'w').write(h)
            else:
                # never run a stale runner against a newer model
                for f in (RUNNER, stamp):
                    if os.path.exists(f):
                        os.remove(f)
        info['ok_model'] = os.path.exists(RUNNER) and \
            os.path.exists(os.path.join(COQ, 'Extract', 'Extract.vo'))
    info['log'] = log
    with open(os.path.join(WORK, 'build.log'), 'w') as f:
        f.write(log)
    if verbose:
        print(log[-3000:])
    return info


def check_props_file(prop):
    """Re-run coqc on Props/<prop>.v and parse Print Assumptions.
    Returns dict(obligations, discharged, theorems, broken, output)."""
    path = os.path.join(COQ, 'Props', prop + '.v')
    src = open(path, encoding='utf-8').read()
    theorems = re.findall(r'^\s*Theorem\s+(\w+)', src, flags=re.M)
    printed = re.findall(r'^\s*Print Assumptions\s+(\w+)\s*\.', src, flags=re.M)
    rc, out = sh('timeout 900 coqc -R . Tdda -w -notation-overridden Props/%s.v' % prop, cwd=COQ, timeout=1000)
    res = {'obligations': len(theorems), 'theorems': theorems, 'output': out[-4000:], 'rc': rc}
    closed = out.count('Closed under the global context')
    broken = []
    if rc != 0:
        res['discharged'] = 0
        m = re.search(r'File "[^"]*", line (\d+)', out)
        broken = ['Props/%s.v fails to compile: %s' % (prop, out.strip().split('\n')[-1][:300])]
        if m:
            # name the theorem containing that line
            line = int(m.group(1))
            name = None
            for mm in re.finditer(r'^\s*Theorem\s+(\w+)', src, flags=re.M):
                if src[:mm.start()].count('\n') + 1 <= line:
                    name = mm.group(1)
            if name:
                broken.append(name)
    else:
        res['discharged'] = min(closed, len(theorems))
        if set(printed) != set(theorems):
            broken.append('Print Assumptions missing for: %s' % sorted(set(theorems) - set(printed)))
            res['discharged'] = 0
        if closed < len(theorems):
            broken.append('axioms reported by Print Assumptions: ' + out[-1500:])
    res['broken'] = broken
    return res


# ---------------------------------------------------------------- model runner

class Model:
    def __init__(self):
        self.calls = 0

    def call_many(self, entry, payloads, timeout=3000):
        """payloads: list of python values (encoded with enc). Returns decoded results."""
        if not payloads:
            return []
        text = ''.join('%x %s\n' % (entry, enc(p)) for p in payloads)
        t0 = time.time()
        if os.environ.get('VERIF_TRACE_CALLS'):
            with open(os.path.join(WORK, 'last_call_%x.txt' % entry), 'w') as f_:
                f_.write(text)
        p = subprocess.run(['bash', '-c', 'ulimit -s unlimited 2>/dev/null; exec ' + RUNNER],
                           input=text, stdout=subprocess.PIPE, stderr=subprocess.PIPE,
                           text=True, timeout=timeout)
        lines = p.stdout.split('\n')
        if p.returncode != 0 or len(lines) < len(payloads):
            raise RuntimeError('model runner failed rc=%s stderr=%s (got %d of %d lines)' %
                               (p.returncode, p.stderr[-500:], len(lines), len(payloads)))
        self.calls += len(payloads)
        if os.environ.get('VERIF_TRACE_CALLS'):
            sys.stderr.write('[model] entry %d: %d payloads, %.1fs\n' % (entry, len(payloads), time.time() - t0))
        out = []
        for l in lines[:len(payloads)]:
            out.append('!stack' if l.startswith('!') else dec(l))
        return out

    def call(self, entry, payload):
        return self.call_many(entry, [payload])[0]


# ---------------------------------------------------------------- reporting

def load_known():
    p = os.path.join(VERIF, 'known_findings.json')
    if not os.path.exists(p):
        return {'findings': [], 'fixed': []}
    return json.load(open(p))


class Ctx:
    def __init__(self, prop, tier, seed):
        self.prop = prop
        self.tier = tier
        self.seed = seed
        self.rng = random.Random(seed * 1000003 + int(prop[1:]))
        self.t0 = time.time()
        self.model = Model()
        self.violations = []       # (replay_path, tail)
        self.known_hits = {}       # finding id -> count
        self.mismatches = []       # correspondence breaks (dicts)
        self.failing = []          # property-level failing inputs (dicts)
        self.cov = {'evaluations': 0, 'distinct_nontrivial': 0, 'samples': [],
                    'traces_validated_against_impl': 0}
        self.extra = {}
        self._distinct = set()
        self.known = [f for f in load_known()['findings'] if f['property'] == prop]
        self.assumptions = []
        self.quick = tier == 'quick'
        d = os.path.join(WORK, 'replays')
        if os.path.isdir(d):
            for f in os.listdir(d):
                if f.startswith(prop + '-'):
                    os.remove(os.path.join(d, f))

    # -- counting
    def count(self, case_key, nontrivial=True, n=1):
        self.cov['evaluations'] += n
        if nontrivial:
            k = hashlib.sha1(repr(case_key).encode('utf-8', 'replace')).digest()[:10]
            if k not in self._distinct:
                self._distinct.add(k)
                self.cov['distinct_nontrivial'] += 1

    def sample(self, case, limit=6):
        if len(self.cov['samples']) < limit:
            self.cov['samples'].append(case)

    def bump(self, key, n=1):
        d = self.extra.setdefault('distribution', {})
        d[key] = d.get(key, 0) + n

    # -- outcomes
    def write_replay(self, data):
        d = os.path.join(WORK, 'replays')
        os.makedirs(d, exist_ok=True)
        blob = json.dumps(data, sort_keys=True, default=repr, ensure_ascii=True)
        h = hashlib.sha1(blob.encode()).hexdigest()[:12]
        path = os.path.join(d, '%s-%s.json' % (self.prop, h))
        with open(path, 'w') as f:
            f.write(json.dumps(data, indent=1, sort_keys=True, default=repr, ensure_ascii=True))
        return path

    def fail(self, case, what, finding=None):
        """A concrete input on which the property fails on the real code.
        finding = id of a known-finding class this input belongs to, if any."""
        if finding is not None and any(f['id'] == finding for f in self.known):
            self.known_hits[finding] = self.known_hits.get(finding, 0) + 1
            return
        import re as _re
        key = _re.sub(r"[0-9]+|'[^']*'|\"[^\"]*\"", '#', what)[:90]
        h = self.extra.setdefault('failure_classes', {})
        h[key] = h.get(key, 0) + 1
        if len(self.failing) < 5:
            path = self.write_replay({'property': self.prop, 'kind': 'failing-input',
                                      'what': what, 'case': case, 'seed': self.seed,
                                      'tier': self.tier})
            self.violations.append((path, ''))
        self.failing.append(what)

    def mismatch(self, layer, case, model_out, impl_out):
        """Model and implementation disagree (correspondence broken)."""
        if len(self.mismatches) < 5:
            self.mismatches.append({'layer': layer, 'case': case,
                                    'model': model_out, 'impl': impl_out})
        else:
            self.mismatches.append(None)

    def finish(self, proof):
        """proof: result of check_props_file plus build info. Emits lines, evidence, exit code."""
        # listed findings whose witness still fails are printed by the property module via
        # ctx.known_hits (the module replays every witness on each run)
        for f in self.known:
            if self.known_hits.get(f['id']):
                print('KNOWN-FINDING: property=%s %s [%s; %d input(s) this run]' %
                      (self.prop, f['what'], f['id'], self.known_hits[f['id']]))
        broken = list(proof.get('broken', []))
        if self.mismatches:
            broken.append('correspondence: %d disagreement(s), first at layer %s' %
                          (len(self.mismatches), self.mismatches[0]['layer']))
        if broken and not self.failing:
            path = self.write_replay({'property': self.prop, 'kind': 'no-failing-input-found',
                                      'broken': broken,
                                      'mismatches': [m for m in self.mismatches if m][:5],
                                      'seed': self.seed, 'tier': self.tier})
            self.violations.append((path, ' no-failing-input-found'))
        elif broken and self.failing:
            # failing inputs already written; add the broken obligations to the first replay
            pass
        for path, tail in self.violations:
            print('VIOLATION property=%s replay=%s%s' % (self.prop, path, tail))
        cov = dict(self.cov)
        cov.update({
            'obligations': proof.get('obligations', 0),
            'discharged': proof.get('discharged', 0),
            'theorems': proof.get('theorems', []),
            'checker_cmd': proof.get('checker_cmd', ''),
            'trusted_base': TRUSTED_BASE + proof.get('extra_trusted', []),
            'broken': broken,
            'correspondence_disagreements': len(self.mismatches),
            'known_findings_hit': self.known_hits,
            'model_calls': self.model.calls,
        })
        cov.update(self.extra)
        ev = {'property_id': self.prop, 'tier': self.tier, 'seed': self.seed, 'level': 'proof',
              'coverage': cov, 'assumptions': self.assumptions,
              'wall_s': round(time.time() - self.t0, 2), 'violations': len(self.violations)}
        os.makedirs(os.path.join(VERIF, 'evidence'), exist_ok=True)
        with open(os.path.join(VERIF, 'evidence', self.prop + '.json'), 'w') as f:
            json.dump(ev, f, indent=1, default=repr, ensure_ascii=True)
            f.write('\n')
        print('%s %s: %d evaluations (%d distinct non-trivial), obligations %d/%d, '
              '%d violation(s), %.1fs' % (self.prop, self.tier, cov['evaluations'],
                                          cov['distinct_nontrivial'], cov['discharged'],
                                          cov['obligations'], len(self.violations),
                                          time.time() - self.t0))
        return 1 if self.violations else 0
